"""Engine histories: generation (DSL programs + op histories), execution on the real engine through
harness/vengine, replay through the Lean monitor (llbuild-model enginecheck), and python oracles for
C01/C02/C05/C06/C07 evaluated on the real engine's own traces."""
import os, subprocess, threading
from . import common as C

SIG_OFFSET, FLAG_OFFSET = 1000, 2000


# ----------------------------------------------------------------------------------------------
# programs
# ----------------------------------------------------------------------------------------------
class Rule:
    def __init__(self, key, kind=0):
        self.key, self.kind = key, kind
        self.sigBase = 0
        self.validMode = self.validArg = self.force = self.deferred = self.vmod = 0
        self.statics, self.whens, self.discs = [], [], []   # reqs are (key,id,kind)

    def line(self):
        t = ["R", self.key, self.kind, self.sigBase, self.validMode, self.validArg, self.force, self.deferred, self.vmod,
             len(self.statics)]
        for q in self.statics:
            t += list(q)
        t.append(len(self.whens))
        for c, reqs in self.whens:
            t += list(c) + [len(reqs)]
            for q in reqs:
                t += list(q)
        t.append(len(self.discs))
        for c, k in self.discs:
            t += list(c) + [k]
        return " ".join(str(x) for x in t)


def gen_program(rng, nkeys, cyclic=False, malformed=False, mustfollow=False):
    """keys 1..nkeys; the first third are inputs; derived rules request lower keys (a DAG) unless `cyclic`."""
    ninputs = max(2, nkeys // 3)
    rules = {}
    for k in range(1, ninputs + 1):
        rules[k] = Rule(k, 0)
    for k in range(ninputs + 1, nkeys + 1):
        r = Rule(k, 1)
        r.sigBase = rng.below(3)
        vm = rng.below(10)
        r.validMode = 1 if vm == 0 else (2 if vm == 1 else 0)
        r.validArg = rng.below(3)
        r.force = 1 if rng.chance(1, 12) else 0
        r.deferred = 1 if rng.chance(1, 3) else 0
        r.vmod = rng.choice([0, 0, 0, 2, 3, 5])
        # input ids are opaque to the engine (clients pass pointers): some rules use ids beyond 32 bits
        nid = [rng.choice([0, 0, 0, 1 << 32, 0x7f3200001000])]

        def req(lo=None):
            nid[0] += 1
            hi = nkeys if cyclic and rng.chance(1, 4) else k - 1
            key = 1 + rng.below(hi)
            if key == k and not cyclic:
                key = 1
            kd = rng.below(12)
            kind = 2 if kd == 0 else (1 if kd == 1 else 0)
            if mustfollow and rng.chance(1, 3):
                kind = 2
            return (key, nid[0], kind)
        for _ in range(rng.below(4)):
            r.statics.append(req())
        value_reqs = [q for q in r.statics if q[2] == 0]
        if value_reqs and rng.chance(1, 2):
            for _ in range(1 + rng.below(2)):
                base = rng.choice(value_reqs)
                c = (0, base[1], 0, 0) if rng.chance(1, 3) else (1, base[1], 2 + rng.below(2), rng.below(2))
                r.whens.append((c, [req() for _ in range(1 + rng.below(2))]))
        if rng.chance(1, 3):
            for _ in range(1 + rng.below(2)):
                tgt = 1 + rng.below(ninputs)
                if malformed and rng.chance(1, 2):
                    # a discovered dependency on a derived rule (outside Program.WF, but the engine allows it);
                    # with `cyclic` it may point forward, so that discovered edges can close cycles
                    tgt = 1 + rng.below(nkeys if cyclic else max(1, k - 1))
                    if tgt == k and not (cyclic and rng.chance(1, 2)):
                        # (with `cyclic`, a rule may also discover ITSELF: the first build completes, every later scan of the
                        # rule meets the recorded self-edge — a cycle of length one)
                        tgt = 1
                if value_reqs and rng.chance(1, 2):
                    base = rng.choice(value_reqs)
                    c = (1, base[1], 2, rng.below(2))
                    r.discs.append((c, tgt))
                elif value_reqs:
                    r.discs.append(((0, value_reqs[0][1], 0, 0), tgt))
        rules[k] = r
    return rules


def gen_self_discovery(rng):
    """directed: a rule that reports ITS OWN key as a discovered dependency.  The build in which it does so completes;
    every later build that scans the rule while it is otherwise up to date meets the recorded self-edge: a cycle of
    length one ([A, A], or [R, A, A] below a requested key R), which must be reported, never skipped."""
    rules = {1: Rule(1, 0), 2: Rule(2, 0)}
    A = 3
    r = Rule(A, 1)
    r.sigBase = rng.below(3)
    r.deferred = 1 if rng.chance(1, 3) else 0
    r.statics.append((1, 1, 0))
    if rng.chance(1, 2):
        r.statics.append((2, 2, rng.choice([0, 2])))
    r.discs.append(((0, 1, 0, 0), A))                  # whenever input 1 was delivered: discover A itself
    if rng.chance(1, 2):
        r.discs.append(((0, 1, 0, 0), 2))
    rules[A] = r
    top = None
    if rng.chance(1, 2):
        top = 4
        t = Rule(top, 1)
        t.statics.append((A, 1, rng.choice([0, 0, 2])))
        rules[top] = t
    ops = [{"op": "M", "slot": 1, "val": 101}, {"op": "M", "slot": 2, "val": 102}]

    def build(k):
        items = [(0, [rng.choice([A, top or A]) for _ in range(rng.below(3))]) for _ in range(rng.below(6))]
        return {"op": "B", "key": k, "cancel_at": 0, "mode": 0, "items": items}
    ops.append(build(top or A))
    if rng.chance(1, 3):
        ops.append({"op": "E"})
    ops.append(build(rng.choice([A, top or A])))       # nothing changed: A is scanned, its recorded self-edge is met
    if rng.chance(1, 2):
        ops.append({"op": "M", "slot": 2, "val": 103})
        ops.append(build(top or A))
    return Case(rules, ops)


def gen_cancel_drain(rng):
    """directed: a build is cancelled while SEVERAL deferred tasks are outstanding, and two or more of them are
    reported complete back-to-back (one schedule item: completions first, then the cancellation, or the cancellation
    in an earlier item) - so the drain of cancelRemainingTasks finds more than one finished task queued at once and
    must account for every one of them.  Later builds on the same engine / after a restart must be clean."""
    rules = {1: Rule(1, 0), 2: Rule(2, 0)}
    n = 2 + rng.below(4)
    leaves = list(range(3, 3 + n))
    for k in leaves:
        r = Rule(k, 1)
        r.sigBase = rng.below(3)
        r.deferred = 1
        r.statics.append((1 + rng.below(2), 1, 0))
        rules[k] = r
    top = 3 + n
    t = Rule(top, 1)
    t.deferred = 1 if rng.chance(1, 4) else 0
    for i, k in enumerate(leaves):
        t.statics.append((k, i + 1, rng.choice([0, 0, 0, 2])))
    rules[top] = t
    ops = [{"op": "M", "slot": 1, "val": 101}, {"op": "M", "slot": 2, "val": 102}]

    def some(lo):
        ks = rng.shuffle(leaves)
        return ks[:min(len(ks), lo + rng.below(len(ks)))]
    for rnd in range(1 + rng.below(3)):
        items = [(0, []) for _ in range(rng.below(7))]
        shape = rng.below(3)
        if shape == 0:
            items.append((1, some(2)))                       # completions and the cancellation in one item
        elif shape == 1:
            items += [(1, []), (0, some(2))]                 # cancelled first, completions at the next hook point
        else:
            items += [(0, some(1)), (1, some(2))]            # some already delivered, then several at once + cancel
        ops.append({"op": "B", "key": top, "cancel_at": 0, "mode": 0, "items": items})
        if rng.chance(1, 3):
            ops.append({"op": "E"})
        if rng.chance(1, 2):
            ops.append({"op": "M", "slot": 1 + rng.below(2), "val": 103 + rnd})
    ops.append({"op": "B", "key": top, "cancel_at": 0, "mode": 0, "items": [(0, some(1)) for _ in range(rng.below(4))]})
    return Case(rules, ops)


def gen_cancel_scan(rng):
    """directed: a chain of rules is built, then a build that only SCANS (nothing changed, or only the leaf) is
    cancelled at the n-th event of its trace - i.e. from inside a callback, between the end of one rule's scan and the
    resumption of its parent's - then the leaf input changes and the chain is built again ON THE SAME ENGINE: no rule
    may keep a scan verdict from the cancelled build."""
    nin = 1 + rng.below(2)
    rules = {k: Rule(k, 0) for k in range(1, nin + 1)}
    depth = 2 + rng.below(4)
    ks = list(range(nin + 1, nin + 1 + depth))
    for i, k in enumerate(ks):
        r = Rule(k, 1)
        r.sigBase = rng.below(3)
        r.deferred = 1 if rng.chance(1, 4) else 0
        r.statics.append((ks[i - 1] if i else 1, 1, 0))
        if nin == 2 and rng.chance(1, 3):
            r.statics.append((2, 2, rng.choice([0, 2])))
        rules[k] = r
    top = ks[-1]
    ops = [{"op": "M", "slot": 1, "val": 101}, {"op": "M", "slot": 2, "val": 102},
           {"op": "B", "key": top, "cancel_at": 0, "mode": 0, "items": []}]
    val = 103
    for rnd in range(1 + rng.below(3)):
        if rng.chance(1, 3):
            ops.append({"op": "M", "slot": 1, "val": val})
            val += 1
        ops.append({"op": "B", "key": top, "cancel_at": 1 + rng.below(4 * depth + 4), "mode": 0, "items": []})
        ops.append({"op": "M", "slot": 1, "val": val})
        val += 1
        ops.append({"op": "B", "key": rng.choice([top, top, ks[rng.below(len(ks))]]), "cancel_at": 0, "mode": 0, "items": []})
        if rng.chance(1, 4):
            ops.append({"op": "E"})
    return Case(rules, ops)


def gen_latent_cycle(rng):
    """directed: a cycle that exists only AFTER an input changed, and that closes through edges an earlier,
    acyclic build already RECORDED (value, single-use or must-follow).  Y = head of a chain requests input I and,
    when I's value is odd, the tail X; X reaches Y through a chain of recorded requests.  Build 1 (I even) records
    the chain; then I becomes odd and Y (or a rule above it) is built: Y runs, requests X, and X's scan meets the
    recorded dependency on the still-running Y."""
    nin = 2 + rng.below(2)
    rules = {k: Rule(k, 0) for k in range(1, nin + 1)}
    chain = 2 + rng.below(3)                 # Y, (middles), X
    ks = list(range(nin + 1, nin + 1 + chain))
    Y, X = ks[0], ks[-1]
    nid = [0]

    def rid():
        nid[0] += 1
        return nid[0]
    for k in ks:
        r = Rule(k, 1)
        r.sigBase = rng.below(3)
        r.deferred = 1 if rng.chance(1, 3) else 0
        rules[k] = r
    a = rid()
    rules[Y].statics.append((1, a, 0))
    rules[Y].whens.append(((1, a, 2, 1), [(X, rid(), rng.choice([0, 0, 2]))]))
    # X -> ... -> Y : each link requests the previous one; the link that closes on Y is mostly must-follow
    for i in range(len(ks) - 1, 0, -1):
        kind = rng.choice([2, 2, 0, 1]) if i == 1 else rng.choice([0, 0, 2])
        rules[ks[i]].statics.append((ks[i - 1], rid(), kind))
        if rng.chance(1, 2):
            rules[ks[i]].statics.append((1 + rng.below(nin), rid(), 0))
    top = None
    if rng.chance(1, 3):
        top = ks[-1] + 1
        r = Rule(top, 1)
        r.statics.append((Y, rid(), 0))
        rules[top] = r
    even, odd = 100 + 2 * rng.below(20), 201 + 2 * rng.below(20)
    ops = [{"op": "M", "slot": k, "val": 50 + k} for k in range(2, nin + 1)]
    ops.append({"op": "M", "slot": 1, "val": even})

    def build(t):
        items = [(0, [rng.choice(ks) for _ in range(rng.below(3))]) for _ in range(rng.below(8))]
        return {"op": "B", "key": t, "cancel_at": 0, "mode": 0, "items": items}
    ops.append(build(rng.choice([X, X, top or X])))
    if rng.chance(1, 3):
        ops.append({"op": "E"})
    ops.append({"op": "M", "slot": 1, "val": odd})
    ops.append(build(rng.choice([Y, Y, top or Y])))
    if rng.chance(1, 2):
        ops.append({"op": "M", "slot": 1, "val": even + 2})
        ops.append(build(rng.choice([X, Y])))
    return Case(rules, ops)


# ----------------------------------------------------------------------------------------------
# python re-implementation of the DSL (independent oracle for clean values / cycles)
# ----------------------------------------------------------------------------------------------
M64 = (1 << 64) - 1


def mix(h, x):
    return ((h ^ x) * 1099511628211) & M64


def cond_holds(c, got):
    if c[1] not in got:
        return False
    if c[0] == 0:
        return True
    return c[2] != 0 and got[c[1]] % c[2] == c[3]


def next_reqs(r, got):
    out = list(r.statics)
    for c, reqs in r.whens:
        if cond_holds(c, got):
            out += reqs
    return out


def disc_keys(r, got):
    return [k for c, k in r.discs if cond_holds(c, got)]


def out_value(r, env, got):
    if r.kind == 0:
        return env.get(r.key, 0)
    h = mix(1469598103934665603, r.key)
    for i in sorted(got):
        h = mix(mix(h, i), got[i])
    h = mix(h, 0xabcdef)
    for d in disc_keys(r, got):
        h = mix(mix(h, d), env.get(d, 0))
    if r.vmod:
        h = h % r.vmod + 1
    return h or 1


class Cyclic(Exception):
    pass


def clean_value(rules, env, k, stack=(), follow_single_use=True, _disc_seen=None):
    """what a brand-new engine computes; raises Cyclic when the demanded graph has a cycle.
    With follow_single_use=False single-use requests are not evaluated (their values are masked anyway):
    this is the reference the incremental engine is held to, because single-use dependencies are by
    definition dropped from the recorded dependencies and never re-demanded by later builds."""
    if k in stack:
        raise Cyclic()
    if _disc_seen is None:
        _disc_seen = set()
    r = rules.get(k) or Rule(k, 0)
    got, done = {}, set()
    while True:
        todo = []
        for q in next_reqs(r, got):
            if q not in done and q not in todo:
                todo.append(q)
        if not todo:
            break
        for q in todo:
            done.add(q)
            if q[2] == 1 and not follow_single_use:
                got[q[1]] = 0
                continue
            v = clean_value(rules, env, q[0], stack + (k,), follow_single_use, _disc_seen)   # a brand-new engine builds every request
            if q[2] == 0:
                got[q[1]] = v
            elif q[2] == 1:
                got[q[1]] = 0
    # discovered dependencies are brought up to date AFTER the discoverer finished: they are not nested
    # in its evaluation (mutual discovery is not a cycle), but each must itself be buildable
    for d in disc_keys(r, got):
        if d not in _disc_seen:
            _disc_seen.add(d)
            clean_value(rules, env, d, (), follow_single_use, _disc_seen)
    return out_value(r, env, got)


# ----------------------------------------------------------------------------------------------
# histories
# ----------------------------------------------------------------------------------------------
def edit_program(rng, rules):
    """a description edit: some derived rules get a new definition (and, as a client must, a new
    signature), some only a new signature; input rules stay as they are"""
    import copy
    new = copy.deepcopy(rules)
    derived = [k for k in sorted(rules) if rules[k].kind == 1]
    if not derived:
        return new
    fresh = gen_program(rng, len(rules))
    for _ in range(1 + rng.below(3)):
        k = rng.choice(derived)
        if rng.chance(1, 3) or k not in fresh or fresh[k].kind != 1:
            # (steps of 10: the harness's signature is sigBase + env[SIG_OFFSET + k] with env values 0..2, and a client must
            # never give two different definitions the same signature)
            new[k].sigBase = rules[k].sigBase + 10 + rng.below(3)       # signature only
        else:
            r = copy.deepcopy(fresh[k])
            r.sigBase = rules[k].sigBase + 20 + rng.below(3)
            new[k] = r
    return new


def gen_history(rng, rules, nops, cancel=False, threads=False, allow_restart=True, allow_revert=True, crash=False, reprogram=False, foreign_cancel=False,
                dbfail=False):
    """list of op dicts.  Builds carry a random completion schedule; with `cancel`, some builds are
    cancelled at a random event or hook point."""
    keys = sorted(rules)
    inputs = [k for k in keys if rules[k].kind == 0]
    derived = [k for k in keys if rules[k].kind == 1] or keys
    ops = []
    stamp = [100]
    hist = {}
    for k in inputs:
        stamp[0] += 1
        ops.append({"op": "M", "slot": k, "val": stamp[0]})
        hist.setdefault(k, []).append(stamp[0])
    nb = 0
    while nb < nops:
        c = rng.below(10)
        if c < 4:
            k = rng.choice(inputs)
            if allow_revert and rng.chance(1, 6) and len(hist.get(k, [])) > 1:
                v = rng.choice(hist[k][:-1])
            elif rng.chance(1, 15):
                v = 0
            else:
                stamp[0] += 1
                v = stamp[0]
            hist.setdefault(k, []).append(v)
            ops.append({"op": "M", "slot": k, "val": v})
        elif c == 4 and rng.chance(1, 2):
            ops.append({"op": "M", "slot": FLAG_OFFSET + rng.below(3), "val": rng.below(2)})
        elif c == 5 and reprogram and rng.chance(1, 2):
            rules = edit_program(rng, rules)
            ops.append({"op": "P", "rules": rules})
        elif c == 5 and allow_restart:
            if rng.chance(1, 5):
                k = rng.choice(derived)
                stamp[0] += 1
                ops.append({"op": "M", "slot": SIG_OFFSET + k, "val": rng.below(3)})
            ops.append({"op": "E"})
        else:
            tgt = rng.choice(derived) if rng.chance(4, 5) else rng.choice(keys)
            items = []
            for _ in range(rng.below(12)):
                ks = [rng.choice(derived) for _ in range(rng.below(3))]
                items.append((0, ks))
            cancel_at = 0
            if cancel and rng.chance(1, 3):
                if rng.chance(1, 2):
                    cancel_at = 2 + rng.below(40)
                else:
                    if not items:
                        items = [(0, [])]
                    i = rng.below(len(items))
                    items[i] = (1, items[i][1])
            mode = 1 if threads and rng.chance(1, 2) else 0
            if foreign_cancel and rng.chance(2, 3):
                # free completion threads and a cancellation issued by a third thread late in the build
                mode, cancel_at = 2, 6 + rng.below(60)
                items = [(0, ks) for _, ks in items]
            if crash and rng.chance(1, 3):
                # the process is killed before its n-th event (at the latest right before the commit)
                ops.append({"op": "K", "key": tgt, "cancel_at": 3 + rng.below(60), "mode": 0, "items": [(0, ks) for _, ks in items]})
                nb += 1
                continue
            if dbfail and rng.chance(1, 4):
                # the next database write of a rule result fails: the engine reports the error and fails the build
                ops.append({"op": "F"})
            ops.append({"op": "B", "key": tgt, "cancel_at": cancel_at, "mode": mode, "items": items})
            nb += 1
    return ops


def op_line(o):
    if o["op"] == "M":
        return "M %d %d" % (o["slot"], o["val"])
    if o["op"] in ("E", "W", "F"):
        return o["op"]
    if o["op"] in ("B", "K"):
        t = [o["op"], o["key"], o["cancel_at"], o["mode"], len(o["items"])]
        for cflag, ks in o["items"]:
            t += [cflag, len(ks)] + list(ks)
        return " ".join(str(x) for x in t)
    if o["op"] == "O":
        return "O %d" % o["key"]
    if o["op"] == "P":
        # a new program (the build description was edited): the harness starts a new engine on the same database
        rs = o["rules"]
        return "\n".join(["P %d" % len(rs)] + [rs[k].line() for k in sorted(rs)])
    raise ValueError(o)


class Case:
    def __init__(self, rules, ops, sqlite=False):
        self.rules, self.ops = rules, ops
        self.sqlite = sqlite          # run on the real SQLite database instead of the observing in-memory one

    def harness_lines(self):
        """program + ops; an `O key` oracle op is inserted after every build"""
        if self.sqlite:
            plain = Case(self.rules, self.ops).harness_lines()
            return ["Q 1"] + plain + ["Q 0"]
        out = ["W", "P %d" % len(self.rules)] + [self.rules[k].line() for k in sorted(self.rules)]
        for o in self.ops:
            out += op_line(o).split("\n")
            if o["op"] == "B":
                out.append("O %d" % o["key"])
        return out


def run_harness(exe, cases, timeout=600, max_problems=4):
    """run the cases in harness processes; returns per case the list of output lines (one per op, a
    program produces one line) or None when the harness stalled/crashed while running that case"""
    res = [None] * len(cases)
    problems = []
    start = 0
    while start < len(cases):
        lines = []
        for c in cases[start:]:
            lines += c.harness_lines()
        try:
            p = subprocess.run([exe, "trace"], input=("\n".join(lines) + "\n").encode(), stdout=subprocess.PIPE,
                               stderr=subprocess.PIPE, timeout=timeout)
            rc, out, err = p.returncode, p.stdout.decode().split("\n"), p.stderr.decode()[-1500:]
        except subprocess.TimeoutExpired as e:
            rc, out, err = -9, (e.stdout or b"").decode().split("\n"), "timeout"
        if out and out[-1] == "":
            out.pop()
        pos = 0
        i = start
        while i < len(cases):
            n = 2 + sum(2 if o["op"] == "B" else 1 for o in cases[i].ops)   # W, P, ops (+O per build)
            if getattr(cases[i], "sqlite", False):
                n += 2                                                       # Q 1 ... Q 0
            if pos + n <= len(out) and not any(l.startswith("STALL") for l in out[pos:pos + n]):
                res[i] = out[pos:pos + n]
                pos += n
                i += 1
            else:
                break
        if i >= len(cases):
            break
        problems.append({"case": i, "rc": rc, "stderr": err, "partial": out[pos:][-3:]})
        if len(problems) >= max_problems:
            # enough evidence: every further stall costs the watchdog's timeout again
            break
        start = i + 1
    return res, problems


def model_lines(case, houts):
    """lines for the Lean monitor: ops with each build replaced by its observed trace"""
    out = ["W", "P %d" % len(case.rules)] + [case.rules[k].line() for k in sorted(case.rules)]
    i = 2
    for o in case.ops:
        if o["op"] == "B":
            out.append("T " + houts[i])
            i += 2
        elif o["op"] == "K":
            out.append("T " + houts[i])
            i += 1
        else:
            out += op_line(o).split("\n")
            i += 1
    return out


def run_model(cases, houts_all, mode="enginecheck"):
    lines = []
    counts = []
    for c, h in zip(cases, houts_all):
        ml = model_lines(c, h)
        lines += ml
        counts.append(2 + len(c.ops))       # W, P(+rules -> one output), ops
    p = subprocess.run([C.model_exe(), mode], input=("\n".join(lines) + "\n").encode(),
                       stdout=subprocess.PIPE, stderr=subprocess.PIPE)
    out = p.stdout.decode().split("\n")
    res, pos = [], 0
    for n in counts:
        res.append(out[pos:pos + n])
        pos += n
    return p.returncode, res, p.stderr.decode()[-2000:]


# ----------------------------------------------------------------------------------------------
# trace parsing + python oracles (property evaluated on the real engine's own outputs)
# ----------------------------------------------------------------------------------------------
def parse_trace(line):
    return [e.split() for e in line.split(" ; ")] if line else []


class Shadow:
    """the observer's shadow record for C02: epochs of last change / last bring-up-to-date per key"""

    def __init__(self):
        self.epoch = 0
        self.changed = {}      # key -> epoch of last value change (as completed)
        self.uptodate = {}     # key -> epoch the engine last brought the rule up to date (in this engine)
        self.completed = {}    # key -> epoch of last completed execution (what the database knows)
        self.value = {}        # key -> value held in memory (updated when a task reports completion)
        self.dbvalue = {}      # key -> value of the last fully processed completion (what the database holds)
        self.dbchanged = {}
        self.sig_at_complete = {}
        self.interrupted = set()
        self.persist_epoch = 0
        self.deps = {}         # key -> recorded dependencies [(key, orderOnly, singleUse)] of its last completed execution


def analyse_case(case, houts, focus):
    """returns (failures, stats).  Each failure: dict(what, kind, input)."""
    fails = []
    st = {"builds": 0, "ok_builds": 0, "cancelled": 0, "cycles": 0, "tasks": 0, "restarts": 0, "uptodate": 0,
          "null_builds": 0, "reasons": {}, "dyn": 0, "disc": 0, "failed": 0}
    env = {}
    sh = Shadow()
    i = 2
    last_build_ok_key = None
    changed_since = True
    rules_now = case.rules
    for oi, o in enumerate(case.ops):
        if o["op"] == "P":
            rules_now = o["rules"]
        if o["op"] == "M":
            env[o["slot"]] = o["val"]
            changed_since = True
            i += 1
            continue
        if o["op"] == "K":
            # the process died mid-build: nothing of that build was committed; a new process starts
            st["crashes"] = st.get("crashes", 0) + 1
            if not houts[i].endswith("KILL"):
                fails.append({"what": "crash run did not end in a kill: " + houts[i][-200:], "kind": "harness", "input": {"case_op": oi}})
        if o["op"] in ("E", "K", "P"):
            st["restarts"] += 1
            if o["op"] == "P":
                st["reprograms"] = st.get("reprograms", 0) + 1
            # a new process knows what the database knows
            sh.uptodate = dict(sh.completed)
            sh.value = dict(sh.dbvalue)
            sh.changed = dict(sh.dbchanged)
            sh.epoch = sh.persist_epoch
            sh.interrupted = set()
            changed_since = True   # (the engine may re-validate; null-build check restarts)
            i += 1
            continue
        if o["op"] != "B":
            i += 1
            continue
        tr = parse_trace(houts[i])
        oracle = houts[i + 1].strip()
        i += 2
        st["builds"] += 1
        if any(e and e[0] == "QC" for e in tr):
            sh.epoch += 1          # (a build cancelled before it started does not consume an epoch)
        where = {"case_op": oi, "build_key": o["key"]}
        created, finished, inflight = [], set(), set()
        tasks = {}
        reason_of = {}
        cancelled = any(e[0] == "X" for e in tr)
        cyc = [e for e in tr if e[0] == "CY"]
        err = any(e[0] == "ER" for e in tr)
        ret = next((e for e in tr if e[0] == "R"), None)
        tail = next((e for e in tr if e[0] == "Z"), None)
        if any(e and e[0] == "QV" for e in tr):
            fails.append({"what": "the engine destroyed its execution queue while a concurrent cancelBuild() was still inside "
                                  "ExecutionQueue::cancelAllJobs() (use after destruction; the cancellation came from a foreign thread near the end of the build)",
                          "kind": "queue-lifetime", "input": where})
            tr = [e for e in tr if e and e[0] != "QV"]
        if ret is None or tail is None:
            fails.append({"what": "build did not return (truncated trace)", "kind": "stall", "input": where})
            continue
        seen_ret = False
        valid_seen = {}
        # a FAILED database write: `S k 2 … DS k …` answered by `ER 6` (with the `X` the same event may trigger in between).
        # The engine resets the rule and nothing is stored: for the observer the execution was interrupted.
        failed_writes = set()
        for j, e in enumerate(tr):
            if e[0] == "DS":
                nxt = [x[:2] for x in tr[j + 1:j + 3]]
                if nxt[:1] == [["ER", "6"]] or nxt == [["X"], ["ER", "6"]]:
                    failed_writes.add(int(e[1]))
        if failed_writes:
            st["failed_db_writes"] = st.get("failed_db_writes", 0) + len(failed_writes)
        for e in tr:
            t = e[0]
            if seen_ret and t not in ("Z",):
                fails.append({"what": "event %s after build() returned" % " ".join(e), "kind": "callback-after-return", "input": where})
            if t == "R":
                seen_ret = True
            elif t == "V":
                valid_seen[int(e[1])] = e[3] == "1"
            elif t == "N":
                k, reason, inp = int(e[1]), int(e[2]), int(e[3])
                st["reasons"][reason] = st["reasons"].get(reason, 0) + 1
                reason_of[k] = reason
                if focus in ("C02", "all"):
                    ok = True
                    if reason == 0:
                        ok = k not in sh.uptodate or k in sh.interrupted
                    elif reason == 1:
                        ok = k in sh.uptodate and sh.sig_at_complete.get(k) != (rules_now[k].sigBase + env.get(SIG_OFFSET + k, 0) if k in rules_now else 0)
                    elif reason == 2:
                        ok = valid_seen.get(k) is False
                    elif reason == 3:
                        ok = inp in sh.changed and k in sh.uptodate and sh.changed[inp] > sh.uptodate[k]
                        if ok and not any(d == inp and not oo and not su for d, oo, su in sh.deps.get(k, [])):
                            fails.append({"what": "rule %d re-run because of input %d, which it only recorded as an order-only (must-follow) or SINGLE-USE dependency or not at all: %s" % (k, inp, sh.deps.get(k)),
                                          "kind": "false-reason", "reason": 3, "order_only": True, "input": where})
                    else:
                        ok = False
                    if not ok:
                        fails.append({"what": "reported reason %d (input %d) for rule %d is not true of the history" % (reason, inp, k),
                                      "kind": "false-reason", "reason": reason, "input": where})
            elif t == "T":
                k = int(e[1])
                st["tasks"] += 1
                if k in created:
                    fails.append({"what": "rule %d executed twice in one build" % k, "kind": "ran-twice", "input": where})
                created.append(k)
                inflight.add(k)
                tasks[k] = {"st": 0, "reqs": [], "got": [], "ia": 0, "c": 0, "pp": 0}
            elif t == "ST":
                k = int(e[1])
                tk = tasks.get(k)
                if tk is None or tk["st"]:
                    fails.append({"what": "start without createTask / twice for %d" % k, "kind": "protocol", "input": where})
                else:
                    tk["st"] = 1
                    n = int(e[2])
                    tk["reqs"] += [tuple(int(x) for x in e[3 + 3 * j:6 + 3 * j]) for j in range(n)]
            elif t == "PP":
                k = int(e[1])
                tk = tasks.get(k)
                if tk is None or not tk["st"] or tk["got"] or tk["ia"] or tk["pp"]:
                    fails.append({"what": "prior value out of protocol for %d" % k, "kind": "protocol", "input": where})
                else:
                    tk["pp"] = 1
                    if k in sh.value and int(e[2]) != sh.value[k] and k not in sh.interrupted:
                        fails.append({"what": "prior value of %d is not its last result" % k, "kind": "protocol", "input": where})
            elif t == "PV":
                k, rid, key, v = int(e[1]), int(e[2]), int(e[3]), int(e[4])
                tk = tasks.get(k)
                if tk is None or not tk["st"] or tk["ia"]:
                    fails.append({"what": "provideValue out of protocol for %d" % k, "kind": "protocol", "input": where})
                    continue
                cands = [q for q in tk["reqs"] if q[0] == key and q[1] == rid and q[2] != 2 and q not in tk["got"]]
                if not cands:
                    fails.append({"what": "provideValue(%d,%d) to %d was not requested or delivered twice" % (rid, key, k), "kind": "protocol", "input": where})
                else:
                    tk["got"].append(cands[0])
                if key not in finished:
                    fails.append({"what": "input %d provided to %d before it was complete in this build" % (key, k), "kind": "protocol", "input": where})
                n = int(e[5])
                tk["reqs"] += [tuple(int(x) for x in e[6 + 3 * j:9 + 3 * j]) for j in range(n)]
                if n:
                    st["dyn"] += 1
                # C01: every input value handed to a task is the current (clean) value of that input
                if focus in ("C01", "all"):
                    try:
                        cv = clean_value(rules_now, env, key, follow_single_use=False)
                        if cv != v:
                            fails.append({"what": "stale input: key %d handed to task %d with value %d, clean value is %d" % (key, k, v, cv),
                                          "kind": "stale-input", "input": where})
                    except (Cyclic, RecursionError):
                        pass
            elif t == "IA":
                k = int(e[1])
                tk = tasks.get(k)
                if tk is None or not tk["st"] or tk["ia"]:
                    fails.append({"what": "inputsAvailable out of protocol for %d" % k, "kind": "protocol", "input": where})
                    continue
                tk["ia"] = 1
                # "start, then its prior value if one exists": a result with the rule's current signature exists exactly when
                # the rule re-runs because its value was declared invalid (2) or an input was rebuilt (3); it does not when the
                # rule was never built / interrupted (0) or its signature changed (1)
                if k in reason_of and reason_of[k] in (0, 1, 2, 3):
                    want = reason_of[k] in (2, 3)
                    st["prior_checked"] = st.get("prior_checked", 0) + 1
                    if bool(tk["pp"]) != want:
                        fails.append({"what": "task %d %s its prior value although the rule re-runs for reason %d (%s)" % (
                                          k, "was offered" if tk["pp"] else "was NOT offered", reason_of[k],
                                          "a stored result with the current signature exists" if want else "no usable stored result exists"),
                                      "kind": "protocol", "clause": "prior-value", "input": where})
                if int(e[2]):
                    st["disc"] += 1
                tk["discs"] = [int(x) for x in e[3:3 + int(e[2])]]
                for q in tk["reqs"]:
                    if q[2] == 2:
                        if q[0] not in finished:
                            fails.append({"what": "inputsAvailable for %d before must-follow key %d was complete" % (k, q[0]), "kind": "protocol", "input": where})
                    elif q not in tk["got"]:
                        fails.append({"what": "inputsAvailable for %d before requested input %s was provided" % (k, q), "kind": "protocol", "input": where})
            elif t == "C":
                k = int(e[1])
                tk = tasks.get(k)
                if tk is None or not tk["ia"] or tk["c"]:
                    fails.append({"what": "complete out of protocol for %d" % k, "kind": "protocol", "input": where})
                else:
                    tk["c"] = 1
                    tk["val"] = int(e[2])
                    tk["force"] = e[3] == "1"
                    # the observer's notion of "produced a changed value": differs from the previous output, or forced
                    if tk["force"] or sh.value.get(k, 0) != tk["val"]:
                        sh.changed[k] = sh.epoch
                    else:
                        sh.changed.setdefault(k, 0)
                    sh.value[k] = tk["val"]
            elif t == "S":
                k, s = int(e[1]), int(e[2])
                if s == 1:
                    finished.add(k)
                    sh.uptodate[k] = sh.epoch
                    st["uptodate"] += 1
                elif s == 2 and k in failed_writes:
                    inflight.add(k)
                elif s == 2:
                    finished.add(k)
                    inflight.discard(k)
                    tk = tasks.get(k, {})
                    sh.uptodate[k] = sh.epoch
                    sh.completed[k] = sh.epoch
                    sh.interrupted.discard(k)
                    sh.dbvalue[k] = sh.value.get(k, 0)
                    sh.dbchanged[k] = sh.changed.get(k, 0)
                    sh.sig_at_complete[k] = (rules_now[k].sigBase + env.get(SIG_OFFSET + k, 0)) if k in rules_now else 0
            elif t == "DS" and int(e[1]) in failed_writes:
                pass
            elif t == "DS":
                nd = int(e[6])
                sh.deps[int(e[1])] = [(int(e[7 + 3 * j]), e[8 + 3 * j] == "1", e[9 + 3 * j] == "1") for j in range(nd)]
                # "everything a build records - ... its dependency list ... with the order-only and single-use flags": the row
                # written for a task is exactly what THIS execution requested (value / single-use / must-follow, as a multiset:
                # the order of recording follows the engine's processing order) followed by what it discovered
                tk = tasks.get(int(e[1]))
                if tk is not None and tk.get("ia") and focus in ("C02", "C03", "C01", "all"):
                    want = sorted([(q[0], q[2] == 2, q[2] == 1) for q in tk["reqs"]] + [(d, False, False) for d in tk.get("discs", [])])
                    st["deps_records_checked"] = st.get("deps_records_checked", 0) + 1
                    if sorted(sh.deps[int(e[1])]) != want:
                        fails.append({"what": "the dependency list recorded for rule %s %s is not what this execution requested and discovered %s" % (
                                          e[1], sorted(sh.deps[int(e[1])]), want), "kind": "bad-deps-record", "input": where})
            elif t == "DI":
                sh.persist_epoch = int(e[1])
        if tail and (tail[1] != "0" or tail[2] != "0"):
            fails.append({"what": "after build() returned: %s live tasks, %s late callbacks" % (tail[1], tail[2]), "kind": "leak", "input": where})
        # rules declared up to date by the scan (`S k 1`): each of their recorded non-single-use dependencies was complete
        # before — so the recorded dependency graph among them is acyclic.  A recorded cycle (a self-edge included) that the
        # scan "survives" is a cycle that was neither waited out nor reported.
        upd = set(int(e[1]) for e in tr if e[0] == "S" and len(e) > 2 and e[2] == "1")
        if upd and focus in ("C07", "all"):
            g = {k: [d for d, oo, su in sh.deps.get(k, []) if not su and (d in upd)] for k in upd}
            color = {}

            def dfs(u):
                color[u] = 1
                for v in g.get(u, []):
                    if color.get(v) == 1 or (color.get(v) is None and dfs(v)):
                        return True
                color[u] = 2
                return False
            if any(color.get(k) is None and dfs(k) for k in sorted(upd)):
                fails.append({"what": "rules %s were declared up to date in one build although their RECORDED dependencies form a cycle among them (a recorded cycle was skipped instead of reported)" % sorted(k for k in upd if color.get(k) == 1),
                              "kind": "missed-cycle", "recorded": True, "input": where})
        success = not cancelled and not cyc and not err
        if cancelled and not cyc and not err and ret[1] != "0":
            # the cancellation arrived after the work loop had finished: the build legitimately succeeded
            success = True
        # rules interrupted by a failed build
        if not success:
            st["failed"] += 1
            sh.interrupted |= inflight
            for k in inflight:
                pass
        if cancelled:
            st["cancelled"] += 1
            if success and inflight:
                fails.append({"what": "build returned a value after cancelBuild() with tasks %s unfinished" % sorted(inflight), "kind": "cancel-ignored", "input": where})
        if cyc:
            st["cycles"] += 1
            ks = [int(x) for x in cyc[0][2:]]
            if not ks or ks[0] != o["key"] or ks[-1] not in ks[:-1]:
                fails.append({"what": "reported cycle %s does not start at the requested key or does not close" % ks, "kind": "bad-cycle",
                              "empty_list": not ks, "requested_key_complete": o["key"] in finished, "input": where})
        # C01 / C07 oracle against a brand-new engine (harness `O` op) and the python reference
        def ref(strict):
            try:
                return clean_value(rules_now, env, o["key"], follow_single_use=strict), False
            except (Cyclic, RecursionError):
                return None, True
        cv_strict, cyclic_strict = ref(True)
        cv, cyclic = ref(False)
        if success:
            st["ok_builds"] += 1
            if cyclic:
                fails.append({"what": "build of %d succeeded although its demanded graph is cyclic" % o["key"], "kind": "missed-cycle", "input": where})
            else:
                if str(cv) != ret[1]:
                    fails.append({"what": "incremental build of %d returned %s, a brand-new engine returns %s" % (o["key"], ret[1], cv),
                                  "kind": "stale-result", "input": where})
                # the real brand-new engine also evaluates single-use requests; compare with it when that is possible
                if not cyclic_strict:
                    if ret[1] != oracle:
                        fails.append({"what": "incremental build of %d returned %s, a brand-new engine returns %s" % (o["key"], ret[1], oracle),
                                      "kind": "stale-result", "input": where})
                    if str(cv_strict) != oracle:
                        fails.append({"what": "python reference %s disagrees with brand-new engine %s for key %d" % (cv_strict, oracle, o["key"]),
                                      "kind": "reference-mismatch", "input": where})
            # C02: null build executes nothing (rules that declare themselves invalid excepted)
            if not changed_since and last_build_ok_key == o["key"]:
                st["null_builds"] += 1
                bad = [k for k in created if not (k in rules_now and (rules_now[k].validMode == 1 or
                        (rules_now[k].validMode == 2 and env.get(FLAG_OFFSET + rules_now[k].validArg, 0) != 0)))]
                # dependents of always-invalid rules whose value changed may legitimately re-run
                if bad and not any(rules_now[k].validMode for k in created if k in rules_now):
                    fails.append({"what": "null build of %d executed rules %s" % (o["key"], bad), "kind": "null-build-ran", "input": where})
            last_build_ok_key = o["key"]
            changed_since = False
        else:
            last_build_ok_key = None
            if not cyc and not cancelled and not err:
                fails.append({"what": "build failed without cancellation, cycle or error", "kind": "spurious-failure", "input": where})
            if cyc and not cyclic_strict and focus in ("C07", "all"):
                # a cycle through dependencies recorded by earlier builds is legitimate; flag only when
                # no rule has any recorded history (first build of a fresh database)
                if st["builds"] == 1:
                    fails.append({"what": "cycle reported on the first build of an acyclic graph", "kind": "false-cycle", "input": where})
    return fails, st
