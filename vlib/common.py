"""Shared machinery for all property checks: builds, Lean proof step + axiom audit,
model/harness drivers, evidence, known findings, verdict."""
import fcntl, hashlib, json, os, re, shutil, subprocess, sys, time, importlib

VERIF = os.path.dirname(os.path.dirname(os.path.abspath(__file__)))
REPO = os.environ.get("VERIF_REPO", "/repo")
# VERIF_LEAN: a private copy of the Lean project (developer tools that test changed trees use one so
# that regenerated files never disturb checks running against /repo)
LEAN = os.environ.get("VERIF_LEAN", os.path.join(VERIF, "lean"))
BUILD = os.environ.get("VERIF_BUILD", os.path.join(VERIF, "build"))
# evidence committed under /verif/evidence always describes /repo itself; runs against another tree keep theirs in their build dir
EVID = os.path.join(VERIF, "evidence") if REPO == "/repo" else os.path.join(BUILD, "evidence")
REPLAY = os.path.join(BUILD, "replay")
sys.path.insert(0, os.path.join(VERIF, "extract"))

ALLOWED_AXIOMS = {"propext", "Classical.choice", "Quot.sound"}
FORBIDDEN = re.compile(r"\bsorry\b|\badmit\b|^\s*axiom\s|native_decide|bv_decide|implemented_by|\bunsafe\s|maxHeartbeats\s+0\b|@\[extern|\bcsimp\b")

NINJA_TARGETS = ["llbuildCore", "llbuildBasic", "llbuildBuildSystem", "llbuildNinja",
                 "llbuildCommands", "libllbuild", "llvmSupport", "llbuild"]


def log(*a):
    print(*a, file=sys.stderr, flush=True)


class Lock:
    def __init__(self, name):
        # the lake lock is global (one shared lean/.lake); build locks are per build directory
        base = (os.path.join(VERIF, ".locks") if "VERIF_LEAN" not in os.environ else BUILD) if name == "lake" else BUILD
        os.makedirs(base, exist_ok=True)
        self.path = os.path.join(base, name + ".lock")

    def __enter__(self):
        self.f = open(self.path, "w")
        fcntl.flock(self.f, fcntl.LOCK_EX)
        return self

    def __exit__(self, *a):
        fcntl.flock(self.f, fcntl.LOCK_UN)
        self.f.close()


def run(cmd, cwd=None, inp=None, timeout=None, env=None):
    e = dict(os.environ)
    if env:
        e.update(env)
    p = subprocess.run(cmd, cwd=cwd, input=inp, stdout=subprocess.PIPE, stderr=subprocess.STDOUT,
                       timeout=timeout, env=e, text=isinstance(inp, str) or inp is None)
    return p.returncode, p.stdout


# ----------------------------------------------------------------------------------------------
# PRNG: one SplitMix64 stream per (seed, property)
# ----------------------------------------------------------------------------------------------
class Rng:
    M = (1 << 64) - 1

    def __init__(self, seed, tag=""):
        h = hashlib.sha256(("%d/%s" % (seed, tag)).encode()).digest()
        self.s = int.from_bytes(h[:8], "little")

    def next(self):
        self.s = (self.s + 0x9E3779B97F4A7C15) & self.M
        z = self.s
        z = ((z ^ (z >> 30)) * 0xBF58476D1CE4E5B9) & self.M
        z = ((z ^ (z >> 27)) * 0x94D049BB133111EB) & self.M
        return z ^ (z >> 31)

    def below(self, n):
        return self.next() % n if n > 0 else 0

    def chance(self, num, den):
        return self.below(den) < num

    def choice(self, xs):
        return xs[self.below(len(xs))]

    def shuffle(self, xs):
        xs = list(xs)
        for i in range(len(xs) - 1, 0, -1):
            j = self.below(i + 1)
            xs[i], xs[j] = xs[j], xs[i]
        return xs

    def bytes_from(self, alphabet, maxlen, minlen=0):
        n = minlen + self.below(maxlen - minlen + 1)
        return bytes(self.choice(alphabet) for _ in range(n))


def hexs(b):
    return b.hex() if len(b) else "-"


def unhex(s):
    return b"" if s == "-" else bytes.fromhex(s)


# ----------------------------------------------------------------------------------------------
# Building the implementation from /repo's working tree (never writes under /repo)
# ----------------------------------------------------------------------------------------------
CFG = {
    "plain": dict(cxx="/usr/bin/clang++-16", cc="/usr/bin/clang-16", btype="RelWithDebInfo",
                  flags="-Wno-error -DLLBUILD_VERIF"),
    "asan": dict(cxx="/usr/bin/clang++-14", cc="/usr/bin/clang-14", btype="RelWithDebInfo",
                 flags="-Wno-error -DLLBUILD_VERIF -O1 -g -fsanitize=address,undefined -fno-sanitize-recover=all -fno-omit-frame-pointer"),
    "tsan": dict(cxx="/usr/bin/clang++-14", cc="/usr/bin/clang-14", btype="RelWithDebInfo",
                 flags="-Wno-error -DLLBUILD_VERIF -O1 -g -fsanitize=thread"),
}


def build_impl(cfg="plain", targets=None):
    """Configure (once) and incrementally build /repo's working tree into build/<cfg>.
    Returns (ok, dir, output)."""
    c = CFG[cfg]
    d = os.path.join(BUILD, cfg)
    with Lock("impl-" + cfg):
        if not os.path.exists(os.path.join(d, "build.ninja")):
            os.makedirs(d, exist_ok=True)
            rc, out = run(["cmake", "-S", REPO, "-B", d, "-G", "Ninja",
                           "-DCMAKE_BUILD_TYPE=" + c["btype"],
                           "-DCMAKE_CXX_COMPILER=" + c["cxx"], "-DCMAKE_C_COMPILER=" + c["cc"],
                           "-DCMAKE_CXX_FLAGS=" + c["flags"], "-DCMAKE_C_FLAGS=" + c["flags"].replace("-Wno-error -DLLBUILD_VERIF", ""),
                           "-DLLBUILD_SUPPORT_BINDINGS="])
            if rc != 0:
                return False, d, out
        rc, out = run(["ninja", "-C", d] + (targets or NINJA_TARGETS))
        return rc == 0, d, out


LINK_LIBS = ["lib/libllbuildCommands.a", "lib/libllbuildNinja.a", "lib/libllbuildBuildSystem.a",
             "lib/libllbuild.a", "lib/libllbuildCore.a", "lib/libllbuildBasic.a", "lib/libllvmSupport.a",
             "lib/libLLVMDemangle.a"]


def build_harness(name, cfg="plain", extra_flags=None):
    """Compile harness/<name>.cpp against build/<cfg> libraries.  Returns (ok, exe, output)."""
    c = CFG[cfg]
    d = os.path.join(BUILD, cfg)
    src = os.path.join(VERIF, "harness", name + ".cpp")
    outdir = os.path.join(d, "vharness")
    exe = os.path.join(outdir, name)
    with Lock("harness-%s-%s" % (cfg, name)):
        os.makedirs(outdir, exist_ok=True)
        deps = [src, os.path.join(VERIF, "harness", "vcommon.h")] + [os.path.join(d, l) for l in LINK_LIBS]
        # the harness may include repository headers and sources: rebuild whenever the libraries or
        # any header under /repo/include, /repo/lib, /repo/products changed after the executable
        newest = 0
        for p in deps:
            if os.path.exists(p):
                newest = max(newest, os.path.getmtime(p))
        for root in ("include", "lib", "products"):
            for dp, dn, fn in os.walk(os.path.join(REPO, root)):
                for f in fn:
                    if f.endswith((".h", ".def", ".cpp", ".inc")):
                        newest = max(newest, os.path.getmtime(os.path.join(dp, f)))
        if os.path.exists(exe) and os.path.getmtime(exe) >= newest:
            return True, exe, ""
        san = [f for f in c["flags"].split() if f.startswith("-fsanitize") or f.startswith("-fno-sanitize") or f == "-fno-omit-frame-pointer"]
        opt = ["-O1", "-g"] if san else ["-O2", "-g"]
        cmd = [c["cxx"], "-std=c++14", "-fno-rtti", "-fno-exceptions", "-DLLBUILD_VERIF", "-DNDEBUG"] + opt + san + \
              ["-include", os.path.join(REPO, "include/libstdc++14-workaround.h"),
               "-I" + os.path.join(REPO, "include"), "-I" + os.path.join(REPO, "lib"), "-I" + REPO,
               "-I" + os.path.join(REPO, "products/libllbuild/include"),
               "-I" + os.path.join(VERIF, "harness"), "-Wno-deprecated-declarations"] + (extra_flags or []) + \
              [src, "-o", exe + ".tmp"] + [os.path.join(d, l) for l in LINK_LIBS] + \
              [os.path.join(d, l) for l in LINK_LIBS[2:]] + ["-lsqlite3", "-lcurses", "-ldl", "-lpthread"]
        rc, out = run(cmd)
        if rc == 0:
            os.replace(exe + ".tmp", exe)
        return rc == 0, exe, out


# ----------------------------------------------------------------------------------------------
# Lean: build, forbidden-token scan, axiom audit
# ----------------------------------------------------------------------------------------------
def lake_build(targets):
    with Lock("lake"):
        rc, out = run(["lake", "build"] + targets, cwd=LEAN)
    return rc == 0, out


def model_exe():
    return os.path.join(LEAN, ".lake", "build", "bin", "llbuild-model")


def import_closure(modules):
    """Lean source files of the LLBuild modules reachable from `modules` (plus Driver.lean's closure)."""
    seen, todo = set(), list(modules)
    files = []
    while todo:
        m = todo.pop()
        if m in seen:
            continue
        seen.add(m)
        path = os.path.join(LEAN, m.replace(".", "/") + ".lean")
        if not os.path.exists(path):
            continue
        files.append(path)
        for line in open(path):
            mm = re.match(r"\s*import\s+(LLBuild[\w.]*|Driver)\s*$", line)
            if mm:
                todo.append(mm.group(1))
    return files


def scan_forbidden(modules=None):
    """grep the Lean sources this property depends on (its module's import closure and the driver's)
    for tokens that would weaken the trusted base; comments are discarded."""
    hits = []
    files = import_closure(list(modules or []) + ["Driver"]) if modules else None
    if files is None:
        files = []
        for dp, dn, fn in os.walk(LEAN):
            if ".lake" in dp:
                continue
            files += [os.path.join(dp, f) for f in fn if f.endswith(".lean")]
    for p in files:
        txt = open(p).read()
        txt = re.sub(r"/-.*?-/", lambda m: "\n" * m.group(0).count("\n"), txt, flags=re.S)
        for i, line in enumerate(txt.split("\n"), 1):
            line = line.split("--")[0]
            if FORBIDDEN.search(line):
                hits.append("%s:%d: %s" % (os.path.relpath(p, VERIF), i, line.strip()))
    return hits


def audit_axioms(module, theorems):
    """#print axioms for each theorem; returns {theorem: [axioms]} or raises on missing theorem."""
    os.makedirs(os.path.join(BUILD, "audit"), exist_ok=True)
    path = os.path.join(BUILD, "audit", module.replace(".", "_") + "_audit.lean")
    with open(path, "w") as f:
        f.write("import %s\n" % module)
        for t in theorems:
            f.write("#print axioms %s\n" % t)
    rc, out = run(["lake", "env", "lean", path], cwd=LEAN)
    res = {}
    missing = []
    # output forms: "'X' depends on axioms: [a, b]"  or "'X' does not depend on any axioms"
    flat = re.sub(r"\s+", " ", out)
    for t in theorems:
        m = re.search(r"'%s' depends on axioms: \[([^\]]*)\]" % re.escape(t), flat)
        if m:
            res[t] = [a.strip() for a in m.group(1).split(",") if a.strip()]
        elif re.search(r"'%s' does not depend on any axioms" % re.escape(t), flat):
            res[t] = []
        else:
            missing.append(t)
    return res, missing, out


def leanchecker(module):
    rc, out = run(["lake", "env", "leanchecker", module], cwd=LEAN)
    return rc == 0, out


# ----------------------------------------------------------------------------------------------
# running the two sides of a correspondence
# ----------------------------------------------------------------------------------------------
def run_lines(cmd, lines, timeout=3600, env=None):
    data = ("\n".join(lines) + "\n").encode()
    e = dict(os.environ)
    if env:
        e.update(env)
    p = subprocess.run(cmd, input=data, stdout=subprocess.PIPE, stderr=subprocess.PIPE, timeout=timeout, env=e)
    out = p.stdout.decode("utf-8", "replace").split("\n")
    if out and out[-1] == "":
        out.pop()
    return p.returncode, out, p.stderr.decode("utf-8", "replace")


def run_both(model_mode, harness_exe, harness_mode, lines, env=None):
    """Feed the same op lines to the Lean model driver and to the C++ harness (in parallel)."""
    import threading
    res = {}

    def a():
        res["m"] = run_lines([model_exe(), model_mode], lines)

    def b():
        res["h"] = run_lines([harness_exe, harness_mode], lines, env=env)
    ta, tb = threading.Thread(target=a), threading.Thread(target=b)
    ta.start(); tb.start(); ta.join(); tb.join()
    return res["m"], res["h"]


# ----------------------------------------------------------------------------------------------
# known findings, evidence, verdict
# ----------------------------------------------------------------------------------------------
def load_known(prop):
    p = os.path.join(VERIF, "known_findings.json")
    if not os.path.exists(p):
        return []
    return [k for k in json.load(open(p)).get("findings", []) if k["property"] == prop and k.get("status") == "known"]


def write_replay(prop, name, obj):
    os.makedirs(REPLAY, exist_ok=True)
    p = os.path.join(REPLAY, "%s-%s.json" % (prop, name))
    with open(p, "w") as f:
        json.dump(obj, f, indent=1, sort_keys=True)
    return p


def write_evidence(prop, tier, seed, level, coverage, assumptions, wall, violations):
    os.makedirs(EVID, exist_ok=True)
    ev = {"property_id": prop, "tier": tier, "seed": seed, "level": level, "coverage": coverage,
          "assumptions": assumptions, "wall_s": round(wall, 2), "violations": violations}
    tmp = os.path.join(EVID, prop + ".json.tmp%d" % os.getpid())
    with open(tmp, "w") as f:
        json.dump(ev, f, indent=1, sort_keys=True)
    os.replace(tmp, os.path.join(EVID, prop + ".json"))
