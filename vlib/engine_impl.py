"""Differential check of the concrete Lean engine model (lean/LLBuild/Model/EngineImpl.lean, driver mode
`engineimpl`) against the real core::BuildEngine driven by harness/vengine in its deterministic mode 0:
the same op lines go to both, every output line (build traces, `O` values, `D` dumps) is compared
verbatim.  Mode `engineimplcheck` replays the model's own traces through the abstract monitor.

    python3 -m vlib.engine_impl [--seed N] [--cases N] [--cyclic] [--cancel] [--malformed] [--mustfollow]
                                [--nofail] [--check] [--show N]

The model command is `llbuild-model` (after integration); set VERIF_ENGINEIMPL_CMD to a private driver
executable (taking the mode as its only argument) before that.
"""
import os, shlex, subprocess, sys
from . import common as C
from . import engine as E


def model_cmd():
    c = os.environ.get("VERIF_ENGINEIMPL_CMD")
    return shlex.split(c) if c else [C.model_exe()]


def case_lines(case):
    """the harness op lines of a case; ops `F` and `D` are passed through (Case.harness_lines knows them
    through op_line, except `D`)"""
    out = ["W", "P %d" % len(case.rules)] + [case.rules[k].line() for k in sorted(case.rules)]
    idx = []          # (line index in the OUTPUT stream, op index or -1/-2 for W/P, kind)
    pos = 0
    idx.append((pos, -2, "W")); pos += 1
    idx.append((pos, -1, "P")); pos += 1
    for i, o in enumerate(case.ops):
        if o["op"] == "D":
            out.append("D")
        else:
            out.append(E.op_line(o))
        idx.append((pos, i, o["op"])); pos += 1
        if o["op"] == "B":
            out.append("O %d" % o["key"])
            idx.append((pos, i, "O")); pos += 1
    return out, idx


def run_lines(cmd, lines, timeout=1800):
    p = subprocess.run(cmd, input=("\n".join(lines) + "\n").encode(), stdout=subprocess.PIPE, stderr=subprocess.PIPE,
                       timeout=timeout)
    out = p.stdout.decode().split("\n")
    if out and out[-1] == "":
        out.pop()
    return p.returncode, out, p.stderr.decode()[-2000:]


def first_difference(a, b):
    """index of the first event that differs between two trace lines, with the two events"""
    ea, eb = a.split(" ; "), b.split(" ; ")
    for i in range(max(len(ea), len(eb))):
        x = ea[i] if i < len(ea) else "<end>"
        y = eb[i] if i < len(eb) else "<end>"
        if x != y:
            return i, x, y
    return -1, "", ""


def trace_stats(line, stats, op, rules=None):
    ev = [e.split() for e in line.split(" ; ")]
    kinds = [e[0] for e in ev if e]
    stats["events"] = stats.get("events", 0) + len(ev)
    def bump(k, c=True):
        if c:
            stats[k] = stats.get(k, 0) + 1
    bump("cancelled", "X" in kinds)
    bump("cancelled_at_event", "X" in kinds and op["cancel_at"] != 0)
    bump("cancelled_at_hook", "X" in kinds and op["cancel_at"] == 0)
    bump("cancelled_before_start", "X" in kinds and "QC" not in kinds)
    bump("cycles", "CY" in kinds)
    bump("cycles_empty_list", any(e[0] == "CY" and e[1] == "0" for e in ev))
    bump("db_failures", any(e[0] == "ER" and e[1] == "6" for e in ev))
    bump("other_errors", any(e[0] == "ER" and e[1] != "6" for e in ev))
    bump("discovered_deps", any(e[0] == "IA" and e[1 + 1] != "0" for e in ev))
    bump("dynamic_requests", any(e[0] == "PV" and e[5] != "0" for e in ev))
    bump("single_use_requests", any(e[0] in ("ST", "PV") and any(x == "1" for x in (e[5::3] if e[0] == "ST" else e[8::3])) for e in ev))
    bump("must_follow_requests", any(e[0] in ("ST", "PV") and any(x == "2" for x in (e[5::3] if e[0] == "ST" else e[8::3])) for e in ev))
    bump("forced_completions", any(e[0] == "C" and e[3] != "0" for e in ev))
    bump("prior_values", "PP" in kinds)
    bump("ran_tasks", "T" in kinds)
    bump("up_to_date_only", "T" not in kinds and "S" in kinds)
    for e in ev:
        if e[0] == "N":
            stats["reason_%s" % e[2]] = stats.get("reason_%s" % e[2], 0) + 1
    # a deferred completion: the completing task's rule is `deferred` (completed by the schedule at a hook point)
    bump("deferred_completions", any(e[0] == "C" and rules and int(e[1]) in rules and rules[int(e[1])].deferred for e in ev))
    bump("succeeded", any(e[0] == "R" and e[1] != "0" for e in ev))


def compare_cases(exe_harness, cases, stats=None, check=False, max_mismatches=50, rejections=None, crash_findings=None):
    """run harness and model on the same lines and compare every output line verbatim.
    returns (n_builds_compared, n_skipped, mismatches).  With `check`, the model's own traces are also
    replayed through the abstract monitor (mode engineimplcheck); builds it rejects are appended to
    `rejections` (dicts with case_ops, op_index, after_injected_db_failure, verdict, model_line,
    same_trace_as_engine) and counted in `stats`.  Ops in which the real engine crashed or stalled are
    mismatches unless the model's trace for that op ends in `BAD <what>` (the model predicts undefined
    behaviour / deadlock there); those are appended to `crash_findings`."""
    stats = stats if stats is not None else {}
    all_lines, metas = [], []
    for ci, c in enumerate(cases):
        lines, idx = case_lines(c)
        all_lines += lines
        metas.append((lines, idx))
    # the harness: one process for all cases; when it dies (the real engine crashed) or stalls, the outputs of the
    # case it died in are truncated there and a new process continues with the next case
    out_h, crashes = [], {}
    start = 0
    while start < len(metas):
        lines_h = [l for lines, _ in metas[start:] for l in lines]
        try:
            rc_h, got, err_h = run_lines([exe_harness, "trace"], lines_h)
        except subprocess.TimeoutExpired:
            rc_h, got, err_h = -9, [], "timeout"
        ci, pos = start, 0
        while ci < len(metas) and pos + len(metas[ci][1]) <= len(got) and not any(l.startswith("STALL") for l in got[pos:pos + len(metas[ci][1])]):
            out_h += got[pos:pos + len(metas[ci][1])]
            pos += len(metas[ci][1])
            ci += 1
        if ci >= len(metas):
            break
        part = got[pos:pos + len(metas[ci][1])]
        for j, l in enumerate(part):
            if l.startswith("STALL"):
                part = part[:j + 1]
                break
        crashes[ci] = {"rc": rc_h, "stderr": err_h[-300:], "n": len(part)}
        out_h += part + [None] * (len(metas[ci][1]) - len(part))
        start = ci + 1
    rc_m, out_m, err_m = run_lines(model_cmd() + ["engineimpl"], all_lines)
    mismatches = []

    def problem(model_line, impl_line):
        mismatches.append({"case_ops": None, "op_index": None, "first_difference_index": None, "model_event": None,
                           "impl_event": None, "model_line": model_line, "impl_line": impl_line})
    total = sum(len(idx) for _, idx in metas)
    if rc_m != 0 or len(out_m) != total:
        problem("model driver exit %s, %d lines for %d ops: %s" % (rc_m, len(out_m), total, err_m[-400:]), "")
        return 0, 0, mismatches
    chk = None
    if check:
        rc_c, chk, err_c = run_lines(model_cmd() + ["engineimplcheck"], all_lines)
        if rc_c != 0 or len(chk) != total:
            problem("engineimplcheck exit %s, %d lines: %s" % (rc_c, len(chk), err_c[-300:]), "")
            chk = None
    n_cmp = n_skip = 0
    base = 0
    for ci, (lines, idx) in enumerate(metas):
        c = cases[ci]
        bad_case = False
        for pos, oi, kind in idx:
            g = base + pos
            m, h = out_m[g], out_h[g]
            if h is None or h.startswith("STALL"):
                # the real engine died / stalled in this op.  If the model predicts exactly that (its trace ends in
                # `BAD <what>`: undefined behaviour or a deadlock in the C++), this is a finding about the engine that the
                # model reproduces; otherwise it is a disagreement.
                cr = crashes.get(ci, {})
                predicted = " ; BAD " in m
                key = "engine_crash_predicted_by_model" if predicted else "engine_crash_not_predicted"
                stats[key] = stats.get(key, 0) + 1
                rec = {"case_ops": lines, "op_index": oi, "op_kind": kind, "first_difference_index": None, "model_event": None,
                       "impl_event": "harness exit %s %s" % (cr.get("rc"), cr.get("stderr", "")), "model_line": m, "impl_line": h or "",
                       "engine_crashed": True, "predicted_by_model": predicted}
                if predicted:
                    if crash_findings is not None:
                        crash_findings.append(rec)
                elif len(mismatches) < max_mismatches:
                    mismatches.append(rec)
                break
            if m == "unsupported":
                if kind in ("B", "K"):
                    n_skip += 1
                continue
            if kind == "B":
                n_cmp += 1
                trace_stats(h, stats, c.ops[oi], c.rules)
                if chk is not None:
                    after_f = any(o["op"] == "F" for o in c.ops[:oi])
                    if chk[g].startswith("ok"):
                        stats["monitor_accepts_model_trace"] = stats.get("monitor_accepts_model_trace", 0) + 1
                    else:
                        key = "monitor_rejects_model_trace" + ("_after_injected_db_failure" if after_f else "")
                        stats[key] = stats.get(key, 0) + 1
                        if rejections is not None:
                            rejections.append({"case_ops": lines, "op_index": oi, "after_injected_db_failure": after_f,
                                               "verdict": chk[g].split(" | ")[0], "model_line": m, "same_trace_as_engine": m == h})
            else:
                stats["other_lines_compared"] = stats.get("other_lines_compared", 0) + 1
            if m != h and not bad_case:
                bad_case = True       # later differences in the same case are consequences
                stats["mismatching_cases"] = stats.get("mismatching_cases", 0) + 1
                if len(mismatches) < max_mismatches:
                    i, me, ie = first_difference(m, h)
                    mismatches.append({"case_ops": lines, "op_index": oi, "op_kind": kind, "first_difference_index": i, "model_event": me,
                                       "impl_event": ie, "model_line": m, "impl_line": h})
        base += len(idx)
    return n_cmp, n_skip, mismatches


def gen_cases(seed, n, cyclic=False, cancel=False, malformed=False, mustfollow=False, fail=True, tag="engineimpl"):
    rng = C.Rng(seed, tag + "/%d%d%d%d" % (cyclic, cancel, malformed, mustfollow))
    cases = []
    for _ in range(n):
        nk = 4 + rng.below(10)
        rules = E.gen_program(rng, nk, cyclic=cyclic, malformed=malformed, mustfollow=mustfollow)
        ops = E.gen_history(rng, rules, 2 + rng.below(9), cancel=cancel, threads=False, crash=False)
        # bias half of the schedules towards the tasks that are actually parked (`deferred` rules), so that
        # completions by schedule items at hook points 0 and 1 (and several at once) are common
        deferred = [k for k in sorted(rules) if rules[k].deferred]
        for o in ops:
            if o["op"] == "B" and deferred and rng.chance(1, 2):
                items = []
                for _ in range(rng.below(30)):
                    items.append((0, [rng.choice(deferred) for _ in range(rng.below(4))]))
                for cflag, _ in o["items"]:
                    if cflag:       # keep a cancellation at a hook point
                        if not items:
                            items = [(0, [])]
                        j = rng.below(len(items))
                        items[j] = (1, items[j][1])
                o["items"] = items
        if fail:
            # inject database failures and dumps (gen_history never does)
            out = []
            for o in ops:
                if o["op"] == "B" and rng.chance(1, 12):
                    out.append({"op": "F"})
                out.append(o)
                if o["op"] == "B" and rng.chance(1, 6):
                    out.append({"op": "D"})
            ops = out
        cases.append(E.Case(rules, ops))
    return cases


def main(argv):
    import argparse
    ap = argparse.ArgumentParser()
    ap.add_argument("--seed", type=int, default=0)
    ap.add_argument("--cases", type=int, default=300)
    ap.add_argument("--cyclic", action="store_true")
    ap.add_argument("--cancel", action="store_true")
    ap.add_argument("--malformed", action="store_true")
    ap.add_argument("--mustfollow", action="store_true")
    ap.add_argument("--nofail", action="store_true")
    ap.add_argument("--check", action="store_true", help="also replay the model's traces through the abstract monitor")
    ap.add_argument("--show", type=int, default=3)
    a = ap.parse_args(argv)
    ok, d, out = C.build_impl("plain")
    if not ok:
        print(out[-3000:]); return 2
    ok, exe, out = C.build_harness("vengine", "plain")
    if not ok:
        print(out[-3000:]); return 2
    cases = gen_cases(a.seed, a.cases, cyclic=a.cyclic, cancel=a.cancel, malformed=a.malformed, mustfollow=a.mustfollow, fail=not a.nofail)
    stats = {}
    rej, crashes = [], []
    n, skipped, mm = compare_cases(exe, cases, stats, check=a.check, rejections=rej, crash_findings=crashes)
    print("seed=%d cases=%d cyclic=%s cancel=%s malformed=%s mustfollow=%s: builds compared=%d skipped=%d mismatches=%d" % (
        a.seed, a.cases, a.cyclic, a.cancel, a.malformed, a.mustfollow, n, skipped, len(mm)))
    print("distribution: " + ", ".join("%s=%s" % (k, stats[k]) for k in sorted(stats)))
    for m in mm[:a.show]:
        print("---- mismatch at op %s (%s), first differing event #%s" % (m["op_index"], m.get("op_kind", ""), m["first_difference_index"]))
        print("  model : %s" % m["model_event"])
        print("  engine: %s" % m["impl_event"])
        print("  model line : %s" % (m["model_line"] or "")[:4000])
        print("  engine line: %s" % (m["impl_line"] or "")[:4000])
        if m["case_ops"]:
            print("  ops:\n    " + "\n    ".join(m["case_ops"]))
    for r in crashes[:a.show]:
        print("---- the real engine crashed (%s) in op %s where the model predicts: %s" % (r["impl_event"], r["op_index"], r["model_line"][-200:]))
        print("  ops:\n    " + "\n    ".join(r["case_ops"]))
    # monitor rejections: first the ones that cannot be blamed on an injected database failure (the monitor has no
    # event for `F`: it records the row of a failed write as written)
    rej.sort(key=lambda r: r["after_injected_db_failure"])
    for r in rej[:a.show]:
        print("---- abstract monitor rejects the model's trace of op %s (after an injected db failure: %s; same trace as the real engine: %s)" % (
            r["op_index"], r["after_injected_db_failure"], r["same_trace_as_engine"]))
        print("  verdict: %s" % r["verdict"][:600])
        print("  trace  : %s" % r["model_line"][:4000])
        print("  ops:\n    " + "\n    ".join(r["case_ops"]))
    return 1 if mm else 0


if __name__ == "__main__":
    sys.exit(main(sys.argv[1:]))
