"""Regenerates the "as built" table of DESIGN.md (§0, between the AS-BUILT markers) from the property modules and the
last evidence files: per property the Lean module its check builds, the number of theorems audited, extractors,
harnesses, and the case counts of the last run.  usage: python3 -m vlib.asbuilt"""
import importlib, json, os
from . import common as C


def lean_lines():
    n = {}
    for sub in ("Model", "Generated", "Lemmas", "Props", "Drv"):
        t = 0
        for root, _, files in os.walk(os.path.join(C.LEAN, "LLBuild", sub)):
            for f in files:
                if f.endswith(".lean"):
                    t += sum(1 for _ in open(os.path.join(root, f), errors="replace"))
        n[sub] = t
    return n


def main():
    rows = ["| id | Lean module of the check | theorems audited | extractors | harnesses | last quick run: cases / theorems ok |", "|---|---|---|---|---|---|"]
    for i in range(1, 21):
        pid = "C%02d" % i
        chk = importlib.import_module("vlib.props." + pid.lower()).CHECK
        ev = {}
        try:
            ev = json.load(open(os.path.join(C.VERIF, "evidence", pid + ".json")))
        except Exception:
            pass
        cov = ev.get("coverage", {}) if isinstance(ev, dict) else {}
        cases = cov.get("evaluations", cov.get("cases", "?"))
        rows.append("| %s | `%s` | %d | %s | %s | %s / %s |" % (
            pid, chk.module, len(chk.theorems), ", ".join(chk.extractors) or "—",
            ", ".join(sorted(set(h for h, _ in chk.harnesses))) or "—", cases, "%s of %s" % (cov.get("discharged", "?"), cov.get("obligations", "?"))))
    n = lean_lines()
    rows.append("")
    rows.append("Lean sources (lines): " + ", ".join("%s %d" % (k, v) for k, v in n.items()) + "; total %d." % sum(n.values()))
    txt = "\n".join(rows)
    p = os.path.join(C.VERIF, "DESIGN.md")
    s = open(p).read()
    a, b = "<!-- AS-BUILT-BEGIN -->\n", "<!-- AS-BUILT-END -->"
    i, j = s.index(a) + len(a), s.index(b)
    open(p, "w").write(s[:i] + txt + "\n" + s[j:])
    print(txt)


if __name__ == "__main__":
    main()
