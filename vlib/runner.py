"""Generic check runner: extract -> prove -> build impl -> correspond (+oracle) -> search -> verdict -> evidence."""
import importlib, json, os, sys, time, traceback
from . import common as C


class Ctx:
    def __init__(self, prop, tier, seed):
        self.prop, self.tier, self.seed = prop, tier, seed
        self.rng = C.Rng(seed, prop)
        self.thorough = tier == "thorough"
        self.notes = []


class Result:
    """What a correspondence/oracle pass reports."""

    def __init__(self):
        self.evaluations = 0            # cases executed on the implementation
        self.distinct_nontrivial = 0    # measured, see rule
        self.rule = ""
        self.samples = []
        self.mismatches = []            # model/impl disagreements: dicts with 'stream', 'input', 'model', 'impl'
        self.oracle_failures = []       # property failures on the real code: dicts with 'what', 'input', ...
        self.distribution = {}
        self.exhaustive = False
        self.extra = {}


class PropertyCheck:
    prop = None
    module = None
    theorems = []          # fully qualified names; each must exist and depend only on the allowed axioms
    extractors = []        # python module names under /verif/extract with run()
    level = "proof"
    assumptions = []
    trusted_base = []
    impl_cfgs = ["plain"]
    harnesses = []         # [(name, cfg)]

    def correspond(self, ctx, res):
        raise NotImplementedError

    def search(self, ctx, res, why):
        """Directed search for a concrete failing input after a proof/correspondence broke.
        Default: nothing beyond what correspond() already explored."""
        return

    def match_known(self, failure, known):
        """Does a listed known finding cover this oracle failure?  `known['match']` is specific."""
        m = known.get("match", {})
        return all(failure.get(k) == v for k, v in m.items())


def main(argv):
    import argparse
    ap = argparse.ArgumentParser()
    ap.add_argument("prop")
    ap.add_argument("--tier", default=os.environ.get("VERIF_TIER", "quick"))
    ap.add_argument("--replay")
    a = ap.parse_args(argv)
    seed = int(os.environ.get("VERIF_SEED", "0"))
    mod = importlib.import_module("vlib.props." + a.prop.lower())
    chk = mod.CHECK
    ctx = Ctx(a.prop, a.tier, seed)
    ctx.replay_path = a.replay
    return run_check(chk, ctx)


def run_check(chk, ctx):
    t0 = time.time()
    prop = chk.prop
    broken = []        # reasons a proof obligation or the tie no longer checks
    ext_info = []
    # 1 extract ---------------------------------------------------------------------------
    for name in chk.extractors:
        try:
            m = importlib.import_module(name)
            ext_info.append(m.run())
        except Exception as e:
            broken.append({"kind": "extractor", "name": name, "detail": "%s: %s" % (type(e).__name__, e)})
            C.log("extractor %s failed closed: %s" % (name, e))
    # 2 prove -----------------------------------------------------------------------------
    ok, out = C.lake_build([chk.module, "llbuild-model"])
    obligations = len(chk.theorems)
    discharged = 0
    axioms = {}
    if not ok:
        errs = [l for l in out.split("\n") if "error" in l][:12]
        broken.append({"kind": "lake-build", "name": chk.module, "detail": "\n".join(errs)})
        # which theorems still check?  build failed => audit what can be audited is impossible for this module
        C.log(out[-3000:])
    else:
        axioms, missing, aout = C.audit_axioms(chk.module, chk.theorems)
        for t in chk.theorems:
            if t in missing:
                broken.append({"kind": "theorem-missing", "name": t, "detail": aout[-500:]})
            elif not set(axioms[t]) <= C.ALLOWED_AXIOMS:
                broken.append({"kind": "axioms", "name": t, "detail": ",".join(axioms[t])})
            else:
                discharged += 1
    hits = C.scan_forbidden([chk.module])
    if hits:
        broken.append({"kind": "forbidden-token", "name": "lean sources", "detail": "\n".join(hits[:10])})
    lc = None
    if ctx.thorough and ok:
        lok, lout = C.leanchecker(chk.module)
        lc = lok
        if not lok:
            broken.append({"kind": "leanchecker", "name": chk.module, "detail": lout[-800:]})
    # 3 build implementation + harness ----------------------------------------------------
    ctx.exe = {}
    for cfg in chk.impl_cfgs:
        okb, d, bout = C.build_impl(cfg)
        if not okb:
            C.log(bout[-4000:])
            print("ERROR: the repository does not build (%s); no verdict" % cfg)
            return 2
    for name, cfg in chk.harnesses:
        okh, exe, hout = C.build_harness(name, cfg)
        if not okh:
            C.log(hout[-4000:])
            # a harness that no longer compiles against the tree is a broken tie, not a crash
            broken.append({"kind": "harness-build", "name": name + "/" + cfg, "detail": hout[-1500:]})
        ctx.exe[(name, cfg)] = exe
    # 4/5 correspond + oracle -------------------------------------------------------------
    res = Result()
    ctx.model_ok = ok
    for attempt in (0, 1):
        try:
            if not any(b["kind"] == "harness-build" for b in broken):
                chk.correspond(ctx, res)
            break
        except OSError as e:
            # a binary under build/<cfg> was being relinked by another check running at the same time
            # (EACCES / ETXTBSY): wait for that build to finish and run the pass again, once
            traceback.print_exc()
            if attempt == 0 and e.errno in (13, 26):
                C.log("binary busy (%s); waiting for the concurrent build and retrying" % e)
                time.sleep(5)
                for cfg in chk.impl_cfgs:
                    C.build_impl(cfg)
                res = Result()
                ctx.rng = C.Rng(ctx.seed, prop)
                continue
            broken.append({"kind": "correspondence-crashed", "name": prop, "detail": "%s: %s" % (type(e).__name__, e)})
            break
        except Exception as e:
            traceback.print_exc()
            broken.append({"kind": "correspondence-crashed", "name": prop, "detail": "%s: %s" % (type(e).__name__, e)})
            break
    for mm in res.mismatches[:50]:
        broken.append({"kind": "correspondence", "name": mm.get("stream", "?"),
                       "detail": json.dumps({"model": mm.get("model"), "impl": mm.get("impl")})[:1200], "input": mm.get("input")})
    # 6 directed search when something broke and no concrete unlisted failure is known yet ----
    known = C.load_known(prop)
    if broken and not any(not any(chk.match_known(f, k) for k in known) for f in res.oracle_failures):
        try:
            chk.search(ctx, res, broken)
        except Exception as e:
            traceback.print_exc()
    # 7 verdict ---------------------------------------------------------------------------
    unlisted = []
    known_hit = {}
    for f in res.oracle_failures:
        k = next((k for k in known if chk.match_known(f, k)), None)
        if k is not None:
            known_hit[k["id"]] = k
        else:
            unlisted.append(f)
    for k in known_hit.values():
        print("KNOWN-FINDING: property=%s %s" % (prop, k["what"]))
    nviol = 0
    seen = set()
    for f in unlisted:
        key = f.get("what", "") + "|" + json.dumps(f.get("input", ""), sort_keys=True)[:200]
        if key in seen:
            continue
        seen.add(key)
        nviol += 1
        if nviol <= 5:
            p = C.write_replay(prop, "violation-%d" % nviol, {"property": prop, "kind": "failing-input", "failure": f,
                                                                "seed": ctx.seed, "tier": ctx.tier})
            print("VIOLATION property=%s replay=%s" % (prop, p))
    # broken proof/correspondence that is not explained by a concrete unlisted failure or a known finding
    if broken and not unlisted:
        explained = all(b["kind"] == "correspondence" and b.get("known") for b in broken)
        # mismatches covered by known findings are flagged by the property module via res.extra["known_mismatch"]
        if not explained:
            nviol += 1
            p = C.write_replay(prop, "broken", {"property": prop, "kind": "no-failing-input-found",
                                                 "no_longer_checks": broken[:20], "seed": ctx.seed, "tier": ctx.tier})
            print("VIOLATION property=%s replay=%s no-failing-input-found" % (prop, p))
    elif broken and unlisted:
        C.write_replay(prop, "broken", {"property": prop, "kind": "broken-obligations", "no_longer_checks": broken[:20]})
    # 8 evidence --------------------------------------------------------------------------
    cov = {
        "obligations": obligations, "discharged": discharged,
        "checker_cmd": "lake build %s && lake env lean <audit: #print axioms ...>%s" % (chk.module, " && lake env leanchecker " + chk.module if ctx.thorough else ""),
        "trusted_base": chk.trusted_base + ["Lean 4 kernel; axioms allowed: propext, Classical.choice, Quot.sound"],
        "theorems": [{"name": t, "axioms": axioms.get(t)} for t in chk.theorems],
        "leanchecker": lc,
        "extractors": ext_info,
        "evaluations": res.evaluations, "distinct_nontrivial": res.distinct_nontrivial, "rule": res.rule,
        "samples": res.samples[:8], "exhaustive": res.exhaustive,
        "correspondence_mismatches": len(res.mismatches), "oracle_failures": len(res.oracle_failures),
        "known_findings_hit": sorted(known_hit.keys()),
        "distribution": res.distribution, "broken": broken[:10],
    }
    cov.update(res.extra)
    C.write_evidence(prop, ctx.tier, ctx.seed, chk.level, cov, chk.assumptions, time.time() - t0, nviol)
    C.log("%s %s: theorems %d/%d, cases %d, mismatches %d, oracle failures %d, violations %d, %.1fs" % (
        prop, ctx.tier, discharged, obligations, res.evaluations, len(res.mismatches), len(res.oracle_failures), nviol, time.time() - t0))
    return 1 if nviol else 0
