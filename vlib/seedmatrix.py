"""Regenerates the seeded-change table of DESIGN.md (§0b) from seeded/*/meta.json.
usage: python3 -m vlib.seedmatrix"""
import glob, json, os, textwrap
from . import common as C


def main():
    rows = []
    for p in sorted(glob.glob(os.path.join(C.VERIF, "seeded", "*", "meta.json"))):
        m = json.load(open(p))
        rows.append(m)
    out = []
    for m in rows:
        out.append("* **%s** (%s%s) — %s" % (m["id"], m["property"], "; also " + ", ".join(m["also"]) if m.get("also") else "", m["summary"]))
        out.append("  *needs*: %s" % m["needs"])
        for chk, how in m.get("caught_by", {}).items():
            out.append("  *`./check %s`*: %s" % (chk.split("/")[0] if "/" not in chk else chk, how))
        out.append("")
    txt = "\n".join("\n".join(textwrap.wrap(l, 100, subsequent_indent="  ", break_long_words=False, break_on_hyphens=False)) if l else "" for l in out)
    p = os.path.join(C.VERIF, "DESIGN.md")
    s = open(p).read()
    a, b = "<!-- SEEDED-MATRIX-BEGIN -->\n", "<!-- SEEDED-MATRIX-END -->"
    i, j = s.index(a) + len(a), s.index(b)
    s = s[:i] + txt + "\n" + s[j:]
    open(p, "w").write(s)
    print("%d seeded changes listed" % len(rows))


if __name__ == "__main__":
    main()
