"""python3 -m vlib.lake <lake args...>   -- run lake in /verif/lean under the shared build lock
(use this instead of calling `lake build` directly so that concurrent builds do not collide)."""
import subprocess, sys
from . import common as C
with C.Lock("lake"):
    sys.exit(subprocess.call(["lake"] + sys.argv[1:], cwd=C.LEAN))
