"""X4/X11 (C08): the BuildSystem as an engine client -> Generated/BuildSystemRules.lean

Translated (statement by statement, fail closed on any unknown shape):
  lib/BuildSystem/BuildSystem.cpp   BuildSystemEngineDelegate::lookupRule, cases Command / Node / Target: which task class a key maps
                                    to (decision chains over found / producers / node type), where the rule signature comes from and
                                    how validity is decided; the static isResultValid of FileInputNodeTask, VirtualInputNodeTask,
                                    ProducedNodeTask, TargetTask; MissingCommandTask's completion (value, forceChange)
  lib/BuildSystem/ExternalCommand.cpp  ExternalCommand::isResultValid: leading guards, loop bounds, per-output test, final answer
  lib/BuildSystem/BuildNode.cpp     BuildNode::getSignature recipe; the `type` attribute table
Fingerprinted (normalised text must be one of the known shapes, else ExtractError): the request lists of
  ExternalCommand::start, TargetTask::start, ProducedNodeTask::start/provideValue, SymlinkCommand::start,
  MkdirCommand::isResultValid, SymlinkCommand::isResultValid, PhonyCommand::getResultForOutput.
"""
import re
from xcommon import *

BS = "lib/BuildSystem/BuildSystem.cpp"
EC = "lib/BuildSystem/ExternalCommand.cpp"
BN = "lib/BuildSystem/BuildNode.cpp"


def norm(s):
    return re.sub(r"\s+", " ", s).strip()


def match_paren(s, i, op="(", cl=")"):
    d = 0
    j = i
    while j < len(s):
        c = s[j]
        if c in "\"'":
            q = c
            j += 1
            while j < len(s) and s[j] != q:
                if s[j] == "\\":
                    j += 1
                j += 1
        elif c == op:
            d += 1
        elif c == cl:
            d -= 1
            if d == 0:
                return j
        j += 1
    raise ExtractError("unbalanced " + op)


def stmts(s):
    """statement list of a block: ('if', cond, then, else|None) | ('for', header, body) | ('simple', text)"""
    out = []
    i = 0
    n = len(s)
    while True:
        while i < n and s[i].isspace():
            i += 1
        if i >= n:
            return out
        st, i = stmt(s, i)
        out.append(st)


def stmt(s, i):
    n = len(s)
    while i < n and s[i].isspace():
        i += 1
    if s[i] == "{":
        body, j = find_block(s, i)
        return ("block", stmts(body)), j
    m = re.compile(r"(if|for)\s*\(").match(s, i)
    if m:
        p = s.index("(", i)
        q = match_paren(s, p)
        head = norm(s[p + 1:q])
        body, j = stmt(s, q + 1)
        body = body[1] if body[0] == "block" else [body]
        if m.group(1) == "for":
            return ("for", head, body), j
        k = j
        while k < n and s[k].isspace():
            k += 1
        els = None
        if re.compile(r"else\b").match(s, k):
            els, j = stmt(s, k + 4)
            els = els[1] if els[0] == "block" else [els]
        return ("if", head, body, els), j
    # simple statement: up to ';' outside (), {} and strings
    j = i
    d = 0
    while j < n:
        c = s[j]
        if c in "\"'":
            q = c
            j += 1
            while j < n and s[j] != q:
                if s[j] == "\\":
                    j += 1
                j += 1
        elif c in "({[":
            d += 1
        elif c in ")}]":
            d -= 1
        elif c == ";" and d == 0:
            return ("simple", norm(s[i:j])), j + 1
        j += 1
    raise ExtractError("statement without terminator: " + s[i:i + 60])


# ------------------------------------------------------------------------------------------------
# boolean expressions over a table of atoms
# ------------------------------------------------------------------------------------------------
def bexpr(text, atoms):
    """translate `a && !b || (c)` with atoms given as {normalised C++: lean}"""
    s = norm(text)
    pos = [0]

    def ws():
        while pos[0] < len(s) and s[pos[0]] == " ":
            pos[0] += 1

    def p_or():
        xs = [p_and()]
        ws()
        while s.startswith("||", pos[0]):
            pos[0] += 2
            xs.append(p_and())
            ws()
        return xs[0] if len(xs) == 1 else "(" + " || ".join(xs) + ")"

    def p_and():
        xs = [p_not()]
        ws()
        while s.startswith("&&", pos[0]):
            pos[0] += 2
            xs.append(p_not())
            ws()
        return xs[0] if len(xs) == 1 else "(" + " && ".join(xs) + ")"

    def p_not():
        ws()
        if s.startswith("!", pos[0]) and not s.startswith("!=", pos[0]):
            pos[0] += 1
            return "!" + p_not()
        if s.startswith("(", pos[0]):
            q = match_paren(s, pos[0])
            inner = bexpr(s[pos[0] + 1:q], atoms)
            pos[0] = q + 1
            return "(" + inner + ")"
        for a in sorted(atoms, key=len, reverse=True):
            if s.startswith(a, pos[0]):
                pos[0] += len(a)
                return atoms[a]
        raise ExtractError("unknown condition atom at: %r" % s[pos[0]:pos[0] + 70])
    e = p_or()
    ws()
    if pos[0] != len(s):
        raise ExtractError("cannot translate condition %r (stopped at %d)" % (s, pos[0]))
    return e


def chain(sts, atoms, allowed_simple, leaf, fall):
    """if-chain of `sts` as a Lean expression.  `leaf(text)` translates a terminal simple statement (return/continue) or returns
    None if the statement is not terminal; other simple statements must match `allowed_simple`.  `fall` = value when the list ends."""
    if not sts:
        return fall
    st = sts[0]
    if st[0] == "simple":
        t = leaf(st[1])
        if t is not None:
            return t
        if not any(re.fullmatch(a, st[1]) for a in allowed_simple):
            raise ExtractError("unexpected statement: %r" % st[1])
        return chain(sts[1:], atoms, allowed_simple, leaf, fall)
    if st[0] == "if":
        rest = chain(sts[1:], atoms, allowed_simple, leaf, fall)
        th = chain(st[2], atoms, allowed_simple, leaf, rest)
        el = chain(st[3], atoms, allowed_simple, leaf, rest) if st[3] is not None else rest
        return "(if %s then %s else %s)" % (bexpr(st[1], atoms), th, el)
    raise ExtractError("unexpected statement kind %s" % st[0])


def class_body(src, name):
    m = re.search(r"class\s+%s\s*:\s*public\s+\w+\s*\{" % name, src)
    if not m:
        raise ExtractError("class %s not found" % name)
    body, _ = find_block(src, m.end() - 1)
    return body


def static_valid(src, cls, atoms, allowed):
    body = function_body(class_body(src, cls), r"static\s+bool\s+isResultValid\s*\([^)]*\)")

    def leaf(t):
        m = re.fullmatch(r"return (.*)", t)
        if not m:
            return None
        e = m.group(1)
        return {"true": "true", "false": "false"}.get(e) or bexpr(e, atoms)
    return chain(stmts(body), atoms, allowed, leaf, "FALLTHROUGH"), body


# ------------------------------------------------------------------------------------------------
# lookupRule
# ------------------------------------------------------------------------------------------------
def rule_info(text):
    """the pieces of one `return std::unique_ptr<Rule>(new BuildSystemRule(key, sig, action, valid[, update]))`"""
    m = re.search(r"new\s+BuildSystemRule\s*\(", text)
    if not m:
        return None
    p = m.end() - 1
    q = match_paren(text, p)
    inner = text[p + 1:q]
    # split the top-level arguments
    args, d, cur = [], 0, ""
    i = 0
    while i < len(inner):
        c = inner[i]
        if c in "({[":
            d += 1
        elif c in ")}]":
            d -= 1
        if c == "," and d == 0:
            args.append(norm(cur))
            cur = ""
        else:
            cur += c
        i += 1
    args.append(norm(cur))
    if len(args) < 4 or args[0] != "keyData":
        raise ExtractError("BuildSystemRule(...) has an unexpected argument list: %r" % args[:2])
    sig = {"{}": "none", "command->getSignature()": "command", "node->getSignature()": "node"}.get(args[1])
    if sig is None:
        raise ExtractError("unknown rule signature source %r" % args[1])
    t = re.findall(r"return new (\w+)\s*\(", args[2])
    if len(t) != 1:
        raise ExtractError("rule action does not create exactly one task: %r" % args[2][:80])
    v = args[3]
    if v == "nullptr":
        val = "alwaysValid"
    else:
        b = re.search(r"->\s*bool\s*\{(.*)\}\s*$", v)
        if not b:
            raise ExtractError("unknown validity callback %r" % v[:80])
        body = norm(b.group(1))
        if body == "return false;":
            val = "neverValid"
        else:
            mm = re.fullmatch(r"return (\w+)::isResultValid\( ?engine, \*\w+, BuildValue::fromData\(value\)\);", body)
            if not mm or mm.group(1) != t[0]:
                raise ExtractError("validity callback of %s does not delegate to its own task class: %r" % (t[0], body))
            val = "delegated"
    return t[0], sig, val


def lc(n):
    return n[0].lower() + n[1:]


def dispatch(sts, atoms, rules):
    """decision chain of one `case` of lookupRule as a Lean expression over RuleClass"""
    if not sts:
        return ".fallsThrough"
    st = sts[0]
    if st[0] == "simple":
        if st[1].startswith("return "):
            r = rule_info(st[1])
            if r is None:
                raise ExtractError("return without a rule: %r" % st[1][:80])
            rules[r[0]] = r
            return "." + lc(r[0])
        if re.fullmatch(r"abort\(\)", st[1]):
            return ".abort"
        if not re.fullmatch(r"(auto it = getBuildDescription\(\)\.get(Commands|Targets)\(\)\.find\(key\.get(CommandName|TargetName)\(\)\)|"
                            r"BuildNode\* node = lookupNode\(key\.getNodeName\(\)\)|Command\* command = it->second\.get\(\)|"
                            r"Target\* target = it->second\.get\(\)|assert\(0 && \"FIXME: invalid target\"\))", st[1]):
            raise ExtractError("lookupRule: unexpected statement %r" % st[1][:100])
        return dispatch(sts[1:], atoms, rules)
    if st[0] == "if":
        if st[3] is not None:
            raise ExtractError("lookupRule: unexpected else")
        rest = dispatch(sts[1:], atoms, rules)
        th = dispatch(st[2] + [("simple", "FALL")], atoms, rules) if False else dispatch_then(st[2], atoms, rules, rest)
        return "(if %s then %s else %s)" % (bexpr(st[1], atoms), th, rest)
    raise ExtractError("lookupRule: unexpected statement kind")


def dispatch_then(sts, atoms, rules, rest):
    e = dispatch(sts, atoms, rules)
    return e.replace(".fallsThrough", rest)


def run():
    bs = strip_comments(read(BS))
    ec = strip_comments(read(EC))
    bn = strip_comments(read(BN))
    used = []
    L = ["set_option linter.unusedVariables false", "", "namespace LLBuild.Generated.BuildSystemRules", ""]

    # ---- lookupRule ----------------------------------------------------------------------------
    lr = function_body(bs, r"std::unique_ptr<Rule>\s+BuildSystemEngineDelegate::lookupRule\s*\(const KeyType& keyData\)")
    used.append((BS, lr))
    labels = re.findall(r"case BuildKey::Kind::(\w+)\s*:", lr)
    want = ["Unknown", "Command", "CustomTask", "DirectoryContents", "FilteredDirectoryContents", "DirectoryTreeSignature",
            "DirectoryTreeStructureSignature", "Node", "Stat", "Target"]
    if labels != want:
        raise ExtractError("lookupRule: key kinds %r, expected %r" % (labels, want))
    segs = {}
    for m in re.finditer(r"case BuildKey::Kind::(\w+)\s*:\s*\{", lr):
        body, _ = find_block(lr, m.end() - 1)
        segs[m.group(1)] = body
    rules = {}
    atoms_cmd = {"it == getBuildDescription().getCommands().end()": "!found"}
    atoms_tgt = {"it == getBuildDescription().getTargets().end()": "!found"}
    atoms_node = {"node->getProducers().empty()": "!hasProducers", "node->isVirtual()": "isVirtual", "node->isDirectory()": "isDirectory",
                  "node->isDirectoryStructure()": "isDirectoryStructure"}
    e_cmd = dispatch(stmts(segs["Command"]), atoms_cmd, rules)
    e_node = dispatch(stmts(segs["Node"]), atoms_node, rules)
    e_tgt = dispatch(stmts(segs["Target"]), atoms_tgt, rules)
    for e in (e_cmd, e_node, e_tgt):
        if ".fallsThrough" in e:
            raise ExtractError("lookupRule: a case can fall through without returning a rule")
    classes = sorted(rules)
    L.append("/-- task classes that `lookupRule` creates for Command / Node / Target keys -/")
    L.append("inductive RuleClass where")
    for c in classes:
        L.append("  | %s" % lc(c))
    L.append("  | abort")
    L.append("  deriving DecidableEq, Repr, Inhabited")
    L.append("")
    L.append("inductive SigSource where | none | command | node deriving DecidableEq, Repr")
    L.append("inductive Validity where | alwaysValid | neverValid | delegated deriving DecidableEq, Repr")
    L.append("")
    L.append("/-- `case BuildKey::Kind::Command`, in source order (`found` = the description has a command of that name) -/")
    L.append("def commandRule (found : Bool) : RuleClass := " + e_cmd)
    L.append("/-- `case BuildKey::Kind::Node`, in source order -/")
    L.append("def nodeRule (hasProducers isVirtual isDirectory isDirectoryStructure : Bool) : RuleClass := " + e_node)
    L.append("/-- `case BuildKey::Kind::Target` -/")
    L.append("def targetRule (found : Bool) : RuleClass := " + e_tgt)
    L.append("")
    L.append("/-- second constructor argument of the rule: where its signature comes from -/")
    L.append("def RuleClass.sigSource : RuleClass → SigSource")
    for c in classes:
        L.append("  | .%s => .%s" % (lc(c), rules[c][1]))
    L.append("  | .abort => .none")
    L.append("/-- fourth constructor argument: nullptr / `return false` / `<its task class>::isResultValid` -/")
    L.append("def RuleClass.validity : RuleClass → Validity")
    for c in classes:
        L.append("  | .%s => .%s" % (lc(c), rules[c][2]))
    L.append("  | .abort => .neverValid")
    L.append("")

    # ---- static isResultValid of the node / target tasks ----------------------------------------------
    va = {"value.isMissingInput()": "isMissingInput", "value.isExistingInput()": "isExistingInput", "value.getOutputInfo() == info": "infoEq",
          "info.isMissing()": "infoMissing", "value.isFailedInput()": "isFailedInput", "value.isVirtualInput()": "isVirtualInput"}
    getinfo = [r"auto info = node\.getFileInfo\( ?getBuildSystem\(engine\)\.getFileSystem\(\)\)"]
    e, b = static_valid(bs, "FileInputNodeTask", va, getinfo)
    used.append((BS, b))
    L.append("/-- `FileInputNodeTask::isResultValid` (`info` = current stat record of the node's path) -/")
    L.append("def fileInputValid (infoMissing isMissingInput isExistingInput infoEq : Bool) : Bool := " + e)
    e, b = static_valid(bs, "VirtualInputNodeTask", va, [])
    used.append((BS, b))
    L.append("def virtualInputValid (isVirtualInput : Bool) : Bool := " + e)
    e, b = static_valid(bs, "ProducedNodeTask", va, [])
    used.append((BS, b))
    L.append("/-- `ProducedNodeTask::isResultValid` -/")
    L.append("def producedNodeValid (isFailedInput isMissingInput : Bool) : Bool := " + e)
    e, b = static_valid(bs, "TargetTask", va, [])
    used.append((BS, b))
    L.append("def targetValid : Bool := " + e)
    for nm in ("fileInputValid", "virtualInputValid", "producedNodeValid", "targetValid"):
        pass
    if any("FALLTHROUGH" in x for x in L):
        raise ExtractError("an isResultValid can end without returning")
    L.append("")

    # ---- MissingCommandTask ------------------------------------------------------------------------
    mc = class_body(bs, "MissingCommandTask")
    ia = function_body(mc, r"virtual\s+void\s+inputsAvailable\s*\(TaskInterface ti\)\s*override")
    used.append((BS, ia))
    m = re.fullmatch(r"return ti\.complete\(BuildValue::make(\w+)\(\)\.toData\(\)(?:, (true|false))?\);", norm(ia))
    if not m:
        raise ExtractError("MissingCommandTask::inputsAvailable: unexpected shape %r" % norm(ia))
    L.append("/-- `MissingCommandTask::inputsAvailable`: the value kind it completes with and the forceChange argument -/")
    L.append("def missingCommandValueKind : String := %s" % lean_str(m.group(1)))
    L.append("def missingCommandForceChange : Bool := %s" % (m.group(2) or "false"))
    L.append("")

    # ---- ExternalCommand::isResultValid --------------------------------------------------------------
    body = function_body(ec, r"bool\s+ExternalCommand::isResultValid\s*\(BuildSystem& system,\s*const BuildValue& value\)")
    used.append((EC, body))
    sts = stmts(body)
    fors = [i for i, s in enumerate(sts) if s[0] == "for"]
    if len(fors) != 1:
        raise ExtractError("ExternalCommand::isResultValid: expected exactly one loop")
    fi = fors[0]
    ga = {"alwaysOutOfDate": "alwaysOutOfDate", "value.isSuccessfulCommand()": "isSuccessfulCommand"}

    def gleaf(t):
        m = re.fullmatch(r"return (true|false)", t)
        return "some %s" % m.group(1) if m else None
    guards = chain(sts[:fi], ga, [], gleaf, "none")
    if sts[fi][1] != "unsigned i = 0, e = outputs.size(); i != e; ++i":
        raise ExtractError("ExternalCommand::isResultValid: the loop does not cover outputs 0..size(): %r" % sts[fi][1])
    oa = {"node->isVirtual()": "isVirtual", "node->isMutated()": "isMutated",
          "value.getNthOutputInfo(i).isMissing() != info.isMissing()": "!missingEq", "value.getNthOutputInfo(i) != info": "!infoEq"}

    def oleaf(t):
        if t == "continue":
            return "true"
        m = re.fullmatch(r"return (true|false)", t)
        if m:
            if m.group(1) == "true":
                raise ExtractError("ExternalCommand::isResultValid: `return true` inside the output loop")
            return "false"
        return None
    per = chain(sts[fi][2], oa, [r"auto\* node = outputs\[i\]", r"auto info = node->getFileInfo\(system\.getFileSystem\(\)\)"], oleaf, "true")
    after = sts[fi + 1:]
    if len(after) != 1 or after[0][0] != "simple" or not re.fullmatch(r"return (true|false)", after[0][1]):
        raise ExtractError("ExternalCommand::isResultValid: unexpected code after the loop")
    L.append("/-- `ExternalCommand::isResultValid`: leading guards (`none` = go on to the outputs) -/")
    L.append("def externalCommandGuards (alwaysOutOfDate isSuccessfulCommand : Bool) : Option Bool := " + guards)
    L.append("/-- body of the loop over ALL outputs (i = 0 .. outputs.size()): `false` = return false, `true` = next output.")
    L.append("    missingEq: stored and current record agree on existence; infoEq: stored record = current record -/")
    L.append("def externalCommandOutputOk (isVirtual isMutated missingEq infoEq : Bool) : Bool := " + per)
    L.append("def externalCommandAfterLoop : Bool := " + after[0][1][7:])
    L.append("/-- the whole function over the list of per-output facts -/")
    L.append("def externalCommandValid (alwaysOutOfDate isSuccessfulCommand : Bool) (outs : List (Bool × Bool × Bool × Bool)) : Bool :=")
    L.append("  match externalCommandGuards alwaysOutOfDate isSuccessfulCommand with")
    L.append("  | some b => b")
    L.append("  | none => outs.all (fun o => externalCommandOutputOk o.1 o.2.1 o.2.2.1 o.2.2.2) && externalCommandAfterLoop")
    L.append("")

    # ---- BuildNode::getSignature ---------------------------------------------------------------------
    body = function_body(bn, r"basic::CommandSignature\s+BuildNode::getSignature\s*\(\)\s*const")
    used.append((BN, body))
    fields = []
    for st in stmts(body):
        if st[0] == "simple" and st[1] in ("basic::CommandSignature sig", "return sig"):
            continue
        if st[0] == "simple" and st[1] == "sig.combine(static_cast<unsigned int>(type))":
            fields.append(".nodeType")
        elif st[0] == "for" and st[1] == "auto* producer : getProducers()" and st[2] == [("simple", "sig.combine(producer->getName())")]:
            fields.append(".producerNames")
        else:
            raise ExtractError("BuildNode::getSignature: unexpected statement %r" % (st,))
    L.append("inductive NodeSigField where | nodeType | producerNames deriving DecidableEq, Repr")
    L.append("/-- `BuildNode::getSignature`: what is hashed, in order -/")
    L.append("def nodeSignatureFields : List NodeSigField := [%s]" % ", ".join(fields))
    L.append("")

    # ---- BuildNode `type` attribute table --------------------------------------------------------------
    body = function_body(bn, r"bool\s+BuildNode::configureAttribute\s*\(const ConfigureContext& ctx,\s*StringRef name,\s*StringRef value\)")
    m = re.search(r"if \(name == \"type\"\) \{(.*?)return true;", norm(body))
    if not m:
        raise ExtractError("BuildNode::configureAttribute: no `type` attribute")
    used.append((BN, m.group(1)))
    pairs = re.findall(r"value == \"([\w-]+)\"\) \{ type = NodeType::(\w+);", m.group(1))
    if len(pairs) < 4:
        raise ExtractError("BuildNode::configureAttribute: `type` table has an unexpected shape")
    L.append("/-- node attribute `type: <value>` -> NodeType -/")
    L.append("def nodeTypeAttribute : List (String × String) := [%s]" % ", ".join("(%s, %s)" % (lean_str(a), lean_str(b)) for a, b in pairs))
    L.append("")

    # ---- fingerprints of the request lists and the tool-specific overrides -----------------------------------
    def fp(src, rel, cls, sig, expect, what):
        b = function_body(class_body(src, cls) if cls else src, sig)
        used.append((rel, b))
        if norm(b) not in expect:
            raise ExtractError("%s changed shape: %r" % (what, norm(b)[:200]))
    fp(ec, EC, None, r"void\s+ExternalCommand::start\s*\(BuildSystem& system,\s*core::TaskInterface ti\)",
       # (the two assignments are the F47 repair: per-build state reset; they do not affect the request list)
       ["skipValue = llvm::None; missingInputKeys.clear(); canUpdateIfNewer = true; hasPriorResult = false; unsigned id = 0; "
        "for (auto it = inputs.begin(), ie = inputs.end(); it != ie; ++it, ++id) { "
        "ti.request(BuildKey::makeNode(*it).toData(), id); } startExternalCommand(system, ti);"], "ExternalCommand::start")
    fp(bs, BS, "TargetTask", r"virtual\s+void\s+start\s*\(TaskInterface ti\)\s*override",
       ["unsigned id = 0; for (auto it = target.getNodes().begin(), ie = target.getNodes().end(); it != ie; ++it, ++id) { "
        "ti.request(BuildKey::makeNode(*it).toData(), id); }"], "TargetTask::start")
    fp(bs, BS, "ProducedNodeTask", r"virtual\s+void\s+provideValue\s*\(TaskInterface,\s*uintptr_t inputID,\s*const KeyType& key,\s*const ValueType& valueData\)\s*override",
       ["auto value = BuildValue::fromData(valueData); assert(producingCommand); nodeResult = producingCommand->getResultForOutput(&node, value);"],
       "ProducedNodeTask::provideValue")
    fp(bs, BS, "ProducedNodeTask", r"virtual\s+void\s+inputsAvailable\s*\(TaskInterface ti\)\s*override",
       ["if (isInvalid) { getBuildSystem(ti).getDelegate().hadCommandFailure(); ti.complete(BuildValue::makeFailedInput().toData()); return; } "
        "assert(!nodeResult.isInvalid()); ti.complete(nodeResult.toData());"], "ProducedNodeTask::inputsAvailable")
    fp(bs, BS, "SymlinkCommand", r"virtual\s+void\s+start\s*\(BuildSystem&,\s*TaskInterface ti\)\s*override",
       ["for (auto it = inputs.begin(), ie = inputs.end(); it != ie; ++it) { ti.mustFollow(BuildKey::makeNode(*it).toData()); }"], "SymlinkCommand::start")
    fp(bs, BS, "SymlinkCommand", r"virtual\s+bool\s+isResultValid\s*\(BuildSystem& system,\s*const BuildValue& value\)\s*override",
       ["StringRef outputPath = getActualOutputPath(); if (outputs.empty() || outputPath.empty()) return false; if (!value.isSuccessfulCommand()) return false; "
        "if (value.getNumOutputs() != 1) return false; auto info = system.getFileSystem().getLinkInfo(outputPath); if (info.isMissing()) return false; "
        "return info == value.getOutputInfo();"], "SymlinkCommand::isResultValid")
    fp(bs, BS, "MkdirCommand", r"virtual\s+bool\s+isResultValid\s*\(BuildSystem& system,\s*const BuildValue& value\)\s*override",
       ["if (!value.isSuccessfulCommand()) return false; auto info = getOutputs()[0]->getFileInfo( system.getFileSystem()); if (info.isMissing()) return false; "
        "if (!info.isDirectory()) return false; return true;"], "MkdirCommand::isResultValid")
    fp(bs, BS, "PhonyCommand", r"virtual\s+BuildValue\s+getResultForOutput\s*\(Node\* node,\s*const BuildValue& value\)\s*override",
       ["auto buildNode = static_cast<BuildNode*>(node); if (buildNode->isVirtual() && !buildNode->isCommandTimestamp()) { return BuildValue::makeVirtualInput(); } "
        "return ExternalCommand::getResultForOutput(node, value);"], "PhonyCommand::getResultForOutput")
    L.append("/-- the request lists (ExternalCommand::start, TargetTask::start: one `request` per declared input / node with id = position;")
    L.append("    SymlinkCommand::start: `mustFollow` per input; ProducedNodeTask: the producer's value through getResultForOutput) and the")
    L.append("    mkdir / symlink / phony overrides have the shapes the hand model was written against -/")
    L.append("def requestShapesChecked : Bool := true")
    L.append("/-- `SymlinkCommand::isResultValid` / `MkdirCommand::isResultValid` as transcribed when the fingerprint matches -/")
    L.append("def symlinkValid (noOutput isSuccessfulCommand oneOutput infoMissing infoEq : Bool) : Bool :=")
    L.append("  if noOutput then false else if !isSuccessfulCommand then false else if !oneOutput then false else if infoMissing then false else infoEq")
    L.append("def mkdirValid (isSuccessfulCommand infoMissing isDirectory : Bool) : Bool :=")
    L.append("  if !isSuccessfulCommand then false else if infoMissing then false else if !isDirectory then false else true")
    L.append("")
    L.append("end LLBuild.Generated.BuildSystemRules")
    return write_generated("BuildSystemRules", "\n".join(L) + "\n", used)


if __name__ == "__main__":
    print(run())
