"""X4: every `getSignature()` body -> Generated/SignatureRecipe.lean (the ordered recipe of `combine` calls).

Source of truth is clang-14's JSON AST (one dump per translation unit, filter "Signature", which contains
both the `CommandSignature` class with the ids of its `combine` overloads and the `getSignature` bodies):
for each `combine` call the callee is resolved THROUGH ITS DECL ID to the overload clang selected, and the
implicit conversions on the argument (IntegralToBoolean, IntegralCast, StringRef construction) are kept as
explicit `Expr` nodes.  The text of `class CommandSignature` (include/llbuild/Basic/Hashing.h) is matched
against the exact shapes the Lean model `leafOf`/`HashTerm.eval` implements.
Fails closed (ExtractError) on any statement, expression, cast or overload shape it does not understand.
"""
import json, os, re, subprocess
from xcommon import *

CLANG = "clang++-14"
TUS = [  # (translation unit, [(qualified-name regex of the enclosing record, Lean Cls constructor)])
    ("lib/BuildSystem/BuildDescription.cpp", [("Command", "command")]),
    ("lib/BuildSystem/ExternalCommand.cpp", [("ExternalCommand", "externalCommand")]),
    ("lib/BuildSystem/ShellCommand.cpp", [("ShellCommand", "shellCommand")]),
    ("lib/BuildSystem/BuildNode.cpp", [("BuildNode", "buildNode")]),
    ("lib/BuildSystem/BuildSystem.cpp", [("ClangShellCommand", "clangShellCommand"),
                                         ("SwiftCompilerShellCommand", "swiftCompilerShellCommand"),
                                         ("SymlinkCommand", "symlinkCommand"),
                                         ("SharedLibraryShellCommand", "sharedLibraryShellCommand")]),
]
CLS_OF_BASE = {"Command": "command", "ExternalCommand": "externalCommand", "ShellCommand": "shellCommand"}
STRIP_CASTS = {"NoOp", "LValueToRValue", "UncheckedDerivedToBase", "DerivedToBase", "ConstructorConversion"}
SIG_TYPES = ("llbuild::basic::CommandSignature", "basic::CommandSignature", "CommandSignature")


def lean_enum(model_src, name):
    m = re.search(r"inductive %s\b(.*?)deriving" % name, model_src, re.S)
    if not m:
        raise ExtractError("Lean inductive %s not found in the model" % name)
    body = re.sub(r"--[^\n]*", "", m.group(1))
    return set(re.findall(r"\|\s*([A-Za-z_][A-Za-z0-9_]*)", body))


def ast_dump(rel):
    cmd = [CLANG, "-std=gnu++17", "-fsyntax-only", "-fno-rtti", "-w", "-I" + os.path.join(REPO, "include"),
           "-I" + os.path.join(REPO, "lib"), "-I" + REPO, "-Xclang", "-ast-dump=json",
           "-Xclang", "-ast-dump-filter=Signature", os.path.join(REPO, rel)]
    p = subprocess.run(cmd, stdout=subprocess.PIPE, stderr=subprocess.PIPE, text=True)
    if p.returncode != 0:
        raise ExtractError("clang failed on %s: %s" % (rel, p.stderr[-400:]))
    dec, i, docs, txt = json.JSONDecoder(), 0, [], p.stdout
    while True:
        while i < len(txt) and txt[i] in " \r\n\t":
            i += 1
        if i >= len(txt):
            break
        o, i = dec.raw_decode(txt, i)
        docs.append(o)
    return docs


def walk(n):
    yield n
    for c in n.get("inner", []) or []:
        if isinstance(c, dict):
            yield from walk(c)


def qt(n):
    return (n.get("type") or {}).get("qualType", "")


def is_sig_type(t):
    t = t.replace("const ", "").replace(" &", "").replace("&", "").strip()
    return t in SIG_TYPES


class TU:
    """One translation unit: overload table (decl id -> Overload) and the getSignature bodies."""

    def __init__(self, rel, fields, methods):
        self.rel, self.fields, self.methods = rel, fields, methods
        self.docs = ast_dump(rel)
        self.overloads = {}     # id -> ("stringRef"|"stdString"|"bool"|"integral"|"vector", methodDecl)
        for d in self.docs:
            if d.get("kind") == "CXXRecordDecl" and d.get("name") == "CommandSignature" and d.get("inner"):
                for m in walk(d):
                    if m.get("kind") == "CXXMethodDecl" and m.get("name") == "combine":
                        self.overloads[m["id"]] = (self.classify(m), m)
        if not self.overloads:
            raise ExtractError("%s: class CommandSignature / combine overloads not found in the AST" % rel)

    @staticmethod
    def classify(m):
        params = [c for c in m.get("inner", []) if c.get("kind") == "ParmVarDecl"]
        if len(params) != 1:
            raise ExtractError("combine overload with %d parameters" % len(params))
        t = qt(params[0])
        tn = t.replace("llvm::", "").replace("std::__cxx11::", "std::")
        if tn == "StringRef":
            return "stringRef"
        if tn in ("const std::string &", "const std::basic_string<char> &"):
            return "stdString"
        if tn == "bool":
            return "bool"
        if re.fullmatch(r"(unsigned |signed )?(int|long|long long|short|char)|unsigned|size_t|uint64_t|unsigned long long", tn):
            return "integral"
        if re.fullmatch(r"const std::vector<.*> &", tn):
            return "vector"
        if tn == "T":
            return "template-pattern"
        raise ExtractError("combine overload with unsupported parameter type '%s'" % t)

    # ---------------------------------------------------------------- expressions
    def strip(self, n):
        while True:
            k = n.get("kind")
            if k in ("ExprWithCleanups", "MaterializeTemporaryExpr", "CXXBindTemporaryExpr", "ParenExpr"):
                n = n["inner"][0]
            elif k == "ImplicitCastExpr" and n.get("castKind") in STRIP_CASTS:
                n = n["inner"][0]
            elif k == "CXXConstructExpr" and is_sig_type(qt(n)) and len(n.get("inner", [])) == 1 and is_sig_type(qt(n["inner"][0])):
                n = n["inner"][0]    # copy / move construction of a CommandSignature
            else:
                return n

    def op_name(self, call):
        c = call["inner"][0]
        while c.get("kind") == "ImplicitCastExpr":
            c = c["inner"][0]
        return c.get("referencedDecl", {}).get("name")

    def is_this(self, n):
        n = self.strip(n)
        return n.get("kind") == "CXXThisExpr"

    def expr(self, n, loopvar):
        k = n.get("kind")
        if k in ("ExprWithCleanups", "MaterializeTemporaryExpr", "CXXBindTemporaryExpr", "ParenExpr"):
            return self.expr(n["inner"][0], loopvar)
        if k == "ImplicitCastExpr":
            ck = n.get("castKind")
            if ck in STRIP_CASTS:
                return self.expr(n["inner"][0], loopvar)
            if ck == "IntegralToBoolean":
                return "(.toBool %s)" % self.expr(n["inner"][0], loopvar)
            if ck == "IntegralCast":
                return "(.toInt %s)" % self.expr(n["inner"][0], loopvar)
            raise ExtractError("implicit cast kind %s not understood" % ck)
        if k in ("CXXFunctionalCastExpr", "CStyleCastExpr", "CXXStaticCastExpr"):
            ck = n.get("castKind")
            if ck == "IntegralCast":
                return "(.toInt %s)" % self.expr(n["inner"][0], loopvar)
            if ck == "NoOp":
                return self.expr(n["inner"][0], loopvar)
            raise ExtractError("explicit cast kind %s not understood" % ck)
        if k == "CXXConstructExpr":
            t = qt(n).replace("const ", "")
            args = n.get("inner", [])
            if t in ("llvm::StringRef", "StringRef") and len(args) == 1:
                at = re.sub(r"\bconst\b|&|llvm::", "", qt(args[0])).strip()
                if at in ("StringRef",):
                    return self.expr(args[0], loopvar)
                if at in ("std::string", "std::basic_string<char>"):
                    return "(.toStringRef %s)" % self.expr(args[0], loopvar)
            raise ExtractError("construct expression of type '%s' from %s not understood" % (qt(n), [qt(a) for a in args]))
        if k == "MemberExpr":
            base = n["inner"][0]
            name = n.get("name")
            if self.is_this(base):
                if name not in self.fields:
                    raise ExtractError("member '%s' is not known to the Lean model (Field)" % name)
                return "(.member .%s)" % name
            if name in ("first", "second"):
                return "(.sel %s .%s)" % (self.expr(base, loopvar), name)
            raise ExtractError("member access .%s not understood" % name)
        if k == "CXXMemberCallExpr":
            callee = n["inner"][0]
            if callee.get("kind") != "MemberExpr" or len(n["inner"]) != 1:
                raise ExtractError("member call with arguments not understood")
            name = callee.get("name")
            if name not in self.methods:
                raise ExtractError("method '%s' is not known to the Lean model (Method)" % name)
            base = callee["inner"][0]
            recv = ".this" if self.is_this(base) else self.expr(base, loopvar)
            return "(.call %s .%s)" % (recv, name)
        if k == "DeclRefExpr":
            ref = n.get("referencedDecl", {})
            if loopvar is not None and ref.get("id") == loopvar:
                return ".loopVar"
            raise ExtractError("reference to '%s' not understood" % ref.get("name"))
        if k == "UnaryOperator" and n.get("opcode") == "!":
            return "(.not %s)" % self.expr(n["inner"][0], loopvar)
        if k == "CXXOperatorCallExpr":
            inner = n["inner"]
            if self.op_name(n) == "operator[]" and len(inner) == 3:
                idx = self.strip(inner[2])
                while idx.get("kind") == "ImplicitCastExpr":
                    idx = idx["inner"][0]
                if idx.get("kind") == "IntegerLiteral":
                    return "(.index %s %s)" % (self.expr(inner[1], loopvar), int(idx["value"]))
            raise ExtractError("operator call not understood")
        raise ExtractError("expression kind %s not understood" % k)

    # ---------------------------------------------------------------- combine chains
    def chain(self, n, loopvar):
        """n: an expression of type CommandSignature.  Returns (root, [stmts]) where root is
        ("var", declId) | ("base", Cls) | ("default",) | ("string", expr)."""
        n = self.strip(n)
        k = n.get("kind")
        if k == "DeclRefExpr" and is_sig_type(qt(n)):
            return ("var", n["referencedDecl"]["id"]), []
        if k == "CXXMemberCallExpr":
            callee = n["inner"][0]
            name = callee.get("name")
            if name == "combine":
                root, stmts = self.chain(callee["inner"][0], loopvar)
                args = n["inner"][1:]
                if len(args) != 1:
                    raise ExtractError("combine call with %d arguments" % len(args))
                ov = self.overloads.get(callee.get("referencedMemberDecl"))
                if ov is None:
                    raise ExtractError("combine call resolves to an unknown declaration")
                return root, stmts + self.combine(ov, args[0], loopvar)
            if name == "getSignature":
                base = callee["inner"][0]
                t = qt(self.strip_to_base(base))
                m = re.search(r"(\w+) \*$", t)
                if not m or m.group(1) not in CLS_OF_BASE:
                    raise ExtractError("getSignature() on '%s' not understood" % t)
                return ("base", CLS_OF_BASE[m.group(1)]), []
        if k in ("CXXTemporaryObjectExpr", "CXXConstructExpr") and is_sig_type(qt(n)):
            args = n.get("inner", [])
            if len(args) == 0:
                return ("default",), []
            if len(args) == 1 and re.sub(r"\bconst\b|&|llvm::", "", qt(args[0])).strip() == "StringRef":
                return ("string", self.expr(args[0], loopvar)), []
        raise ExtractError("signature expression kind %s not understood" % k)

    def strip_to_base(self, n):
        # this -> (UncheckedDerivedToBase) Base* -> (NoOp) const Base*: keep the outermost pointer type
        while n.get("kind") == "ImplicitCastExpr" and n.get("castKind") == "NoOp":
            n = n["inner"][0]
        return n

    def combine(self, ov, arg, loopvar):
        kind, decl = ov
        if kind in ("stringRef", "stdString", "bool", "integral"):
            return ["(.comb ⟨.%s, %s⟩)" % (kind, self.expr(arg, loopvar))]
        if kind == "vector":
            # inline the instantiated body of `template <T> combine(const std::vector<T>&)`
            body = next((c for c in decl.get("inner", []) if c.get("kind") == "CompoundStmt"), None)
            param = next(c for c in decl["inner"] if c.get("kind") == "ParmVarDecl")
            if body is None:
                raise ExtractError("vector overload %s has no instantiated body" % qt(decl))
            e = self.expr(arg, loopvar)
            out = ["(.note %s)" % lean_str("inlined " + "combine(" + qt(param) + ")")]
            stmts = body["inner"]
            if not stmts or stmts[-1].get("kind") != "ReturnStmt":
                raise ExtractError("vector overload body: unexpected shape")
            for s in stmts[:-1]:
                s = self.strip(s)
                if s.get("kind") == "CXXMemberCallExpr" and s["inner"][0].get("name") == "combine" and self.is_this(s["inner"][0]["inner"][0]):
                    ov2 = self.overloads.get(s["inner"][0].get("referencedMemberDecl"))
                    a = self.strip(s["inner"][1])
                    # combine(list.size())
                    while a.get("kind") == "ImplicitCastExpr":
                        a = a["inner"][0]
                    if ov2 and ov2[0] == "integral" and a.get("kind") == "CXXMemberCallExpr" and a["inner"][0].get("name") == "size" \
                            and self.strip(a["inner"][0]["inner"][0]).get("referencedDecl", {}).get("id") == param["id"]:
                        out.append("(.comb ⟨.integral, (.call %s .size)⟩)" % e)
                        continue
                    raise ExtractError("vector overload body: unexpected combine call")
                if s.get("kind") == "CXXForRangeStmt":
                    rng, var, lbody = self.for_parts(s)
                    if self.strip(rng).get("referencedDecl", {}).get("id") != param["id"]:
                        raise ExtractError("vector overload body: loop is not over the parameter")
                    combs = []
                    for b in lbody:
                        b = self.strip(b)
                        if not (b.get("kind") == "CXXMemberCallExpr" and b["inner"][0].get("name") == "combine" and self.is_this(b["inner"][0]["inner"][0])):
                            raise ExtractError("vector overload loop body: unexpected statement")
                        ov3 = self.overloads.get(b["inner"][0].get("referencedMemberDecl"))
                        if not ov3 or ov3[0] not in ("stringRef", "stdString", "bool", "integral"):
                            raise ExtractError("vector overload loop body: nested overload not understood")
                        combs.append("⟨.%s, %s⟩" % (ov3[0], self.expr(b["inner"][1], var)))
                    out.append("(.forRange %s [%s])" % (e, ", ".join(combs)))
                    continue
                raise ExtractError("vector overload body: statement kind %s" % s.get("kind"))
            return out
        raise ExtractError("combine resolves to overload kind %s" % kind)

    def for_parts(self, s):
        inner = s["inner"]
        # [init?, range decl, begin decl, end decl, cond, inc, loop var decl, body]
        rangedecl = next(c for c in inner if c.get("kind") == "DeclStmt" and c["inner"][0].get("name", "").startswith("__range"))
        rng = rangedecl["inner"][0]["inner"][0]
        vardecl = [c for c in inner if c.get("kind") == "DeclStmt" and not c["inner"][0].get("isImplicit")]
        if len(vardecl) != 1:
            raise ExtractError("range-for: loop variable not found")
        var = vardecl[0]["inner"][0]["id"]
        body = inner[-1]
        lbody = body["inner"] if body.get("kind") == "CompoundStmt" else [body]
        return rng, var, lbody

    # ---------------------------------------------------------------- statements
    def simple_stmt(self, s, accs, loopvar):
        """A statement that extends the accumulator: `v = v.combine(..)…;` or `v.combine(..)…;` -> [Stmt]"""
        s = self.strip(s)
        k = s.get("kind")
        if k == "CXXOperatorCallExpr" and self.op_name(s) == "operator=":
            lhs, rhs = self.strip(s["inner"][1]), s["inner"][2]
            if lhs.get("kind") == "DeclRefExpr" and lhs["referencedDecl"]["id"] in accs:
                root, stmts = self.chain(rhs, loopvar)
                if root[0] == "var" and root[1] in accs and stmts:
                    return stmts
            raise ExtractError("assignment shape not understood")
        if k == "CXXMemberCallExpr":
            root, stmts = self.chain(s, loopvar)
            if root[0] == "var" and root[1] in accs and stmts:
                return stmts
        raise ExtractError("statement kind %s not understood" % k)

    def block(self, stmts, accs):
        out = []
        for s in stmts:
            s = self.strip(s)
            if s.get("kind") == "CXXForRangeStmt":
                rng, var, lbody = self.for_parts(s)
                combs = []
                for b in lbody:
                    for st in self.simple_stmt(b, accs, var):
                        m = re.fullmatch(r"\(\.comb (⟨.*⟩)\)", st)
                        if not m:
                            raise ExtractError("loop body: only plain combine calls are understood")
                        combs.append(m.group(1))
                out.append("(.forRange %s [%s])" % (self.expr(rng, None), ", ".join(combs)))
            else:
                out.extend(self.simple_stmt(s, accs, None))
        return out

    def recipe(self, fn):
        body = next((c for c in fn.get("inner", []) if c.get("kind") == "CompoundStmt"), None)
        steps, accs, inited, cache_field, returned = [], set(), False, None, False
        pending_cache_var = None
        stmts = body.get("inner", [])
        i = 0
        while i < len(stmts):
            s = stmts[i]
            k = s.get("kind")
            if returned:
                raise ExtractError("statements after return")
            if k == "DeclStmt":
                v = s["inner"][0]
                if len(s["inner"]) != 1 or v.get("kind") != "VarDecl" or not is_sig_type(qt(v)):
                    raise ExtractError("declaration not understood")
                init = v.get("inner", [None])[0] if v.get("inner") else None
                ini = self.strip(init) if init else None
                # `CommandSignature signature = cachedSignature; if (!signature.isNull()) return signature;`
                if ini is not None and ini.get("kind") == "ImplicitCastExpr" and ini.get("castKind") == "UserDefinedConversion":
                    me = [x for x in walk(ini) if x.get("kind") == "MemberExpr" and self.is_this(x["inner"][0])]
                    if len(me) != 1 or "atomic" not in qt(me[0]):
                        raise ExtractError("cache load shape not understood")
                    nxt = stmts[i + 1] if i + 1 < len(stmts) else {}
                    if not self.is_cache_guard(nxt, v["id"]):
                        raise ExtractError("cache load must be followed by `if (!sig.isNull()) return sig;`")
                    cache_field = me[0]["name"]
                    if cache_field not in self.fields:
                        raise ExtractError("member '%s' is not known to the Lean model" % cache_field)
                    steps.append(".cacheLoad .%s" % cache_field)
                    pending_cache_var = v["id"]
                    i += 2
                    continue
                if inited:
                    raise ExtractError("second accumulator initialisation")
                if ini is None:
                    raise ExtractError("uninitialised declaration")
                root, st = self.chain(init, None)
                steps.append(self.init_step(root))
                steps.extend(".stmt " + x for x in st)
                accs.add(v["id"])
                inited = True
            elif k == "IfStmt":
                inner = s["inner"]
                # `if (signature.isNull()) signature = CommandSignature(1);`
                if self.is_null_fixup(s, accs):
                    steps.append(".nullToOne")
                else:
                    if not inited:
                        raise ExtractError("if before initialisation")
                    if len(inner) != 3:
                        raise ExtractError("if without else not understood")
                    cond = self.expr(inner[0], None)
                    thn = self.block(inner[1]["inner"] if inner[1].get("kind") == "CompoundStmt" else [inner[1]], accs)
                    els = self.block(inner[2]["inner"] if inner[2].get("kind") == "CompoundStmt" else [inner[2]], accs)
                    steps.append(".ifElse %s [%s] [%s]" % (cond, ", ".join(thn), ", ".join(els)))
            elif k == "ReturnStmt":
                root, st = self.chain(s["inner"][0], None)
                if root[0] == "var":
                    if root[1] not in accs:
                        raise ExtractError("returns a value that is not the accumulator")
                else:
                    if inited:
                        raise ExtractError("return re-initialises the accumulator")
                    steps.append(self.init_step(root))
                    inited = True
                steps.extend(".stmt " + x for x in st)
                returned = True
            else:
                ss = self.strip(s)
                # `signature = code;` (alias) / `cachedSignature = signature;` (cache store)
                if ss.get("kind") == "CXXOperatorCallExpr" and self.op_name(ss) == "operator=":
                    lhs, rhs = self.strip(ss["inner"][1]), self.strip(ss["inner"][2])
                    if rhs.get("kind") == "DeclRefExpr" and rhs["referencedDecl"]["id"] in accs:
                        if lhs.get("kind") == "DeclRefExpr" and lhs["referencedDecl"]["id"] == pending_cache_var:
                            accs.add(pending_cache_var)
                            i += 1
                            continue
                        if lhs.get("kind") == "MemberExpr" and lhs.get("name") == cache_field and self.is_this(lhs["inner"][0]):
                            steps.append(".cacheStore .%s" % cache_field)
                            i += 1
                            continue
                if not inited:
                    raise ExtractError("statement before initialisation")
                steps.extend(".stmt " + x for x in self.block([s], accs))
            i += 1
        if not returned:
            raise ExtractError("no return statement")
        if cache_field and sum(1 for x in steps if x.startswith(".cacheStore")) != 1:
            raise ExtractError("cache is loaded but not stored exactly once")
        return steps, cache_field

    def init_step(self, root):
        if root[0] == "default":
            return ".initDefault"
        if root[0] == "string":
            return ".initString %s" % root[1]
        if root[0] == "base":
            return ".initBase .%s" % root[1]
        raise ExtractError("initialiser not understood")

    def is_cache_guard(self, s, var):
        if s.get("kind") != "IfStmt" or len(s["inner"]) != 2:
            return False
        c = self.strip(s["inner"][0])
        if not (c.get("kind") == "UnaryOperator" and c.get("opcode") == "!"):
            return False
        call = self.strip(c["inner"][0])
        if not (call.get("kind") == "CXXMemberCallExpr" and call["inner"][0].get("name") == "isNull"
                and self.strip(call["inner"][0]["inner"][0]).get("referencedDecl", {}).get("id") == var):
            return False
        r = s["inner"][1]
        if r.get("kind") == "CompoundStmt" and len(r["inner"]) == 1:
            r = r["inner"][0]
        return r.get("kind") == "ReturnStmt" and self.strip(r["inner"][0]).get("referencedDecl", {}).get("id") == var

    def is_null_fixup(self, s, accs):
        if len(s["inner"]) != 2:
            return False
        call = self.strip(s["inner"][0])
        if not (call.get("kind") == "CXXMemberCallExpr" and call["inner"][0].get("name") == "isNull"):
            return False
        v = self.strip(call["inner"][0]["inner"][0]).get("referencedDecl", {}).get("id")
        if v not in accs:
            return False
        r = s["inner"][1]
        if r.get("kind") == "CompoundStmt" and len(r["inner"]) == 1:
            r = r["inner"][0]
        r = self.strip(r)
        if not (r.get("kind") == "CXXOperatorCallExpr" and self.op_name(r) == "operator=" and self.strip(r["inner"][1]).get("referencedDecl", {}).get("id") == v):
            return False
        lits = [x for x in walk(r["inner"][2]) if x.get("kind") == "IntegerLiteral"]
        if len(lits) != 1 or lits[0].get("value") != "1":
            raise ExtractError("null fix-up with a value other than 1")
        return True


# text shapes of class CommandSignature that the Lean model implements (whitespace-normalised)
HASHING_REQUIRED = [
    ("ctor(StringRef) = hash_value", r"CommandSignature\(StringRef string\) \{ value = size_t\(llvm::hash_value\(string\)\); \}"),
    ("isNull", r"bool isNull\(\) const \{ return value == 0; \}"),
    ("combine(StringRef)", r"CommandSignature& combine\(StringRef string\) \{ value = llvm::hash_combine\(value, string\); return \*this; \}"),
    ("combine(const std::string&)", r"CommandSignature& combine\(const std::string ?&string\) \{ value = llvm::hash_combine\(value, string\); return \*this; \}"),
    ("combine(bool)", r"CommandSignature& combine\(bool b\) \{ value = llvm::hash_combine\(value, b\); return \*this; \}"),
    ("value field", r"uint64_t value = 0;"),
]
HASHING_INTEGRAL = r"template <typename T> typename std::enable_if<std::is_integral<T>::value && !std::is_same<T, bool>::value, CommandSignature&>::type combine\(T v\) \{ value = llvm::hash_combine\(value, static_cast<uint64_t>\(v\)\); return \*this; \}"
HASHING_VECTOR = r"template <typename T> CommandSignature& combine\(const std::vector<T>& list\) \{ (combine\(list\.size\(\)\); )?for \(const auto& v: list\) \{ combine\(v\); \} return \*this; \}"
SEED_RE = r"const uint64_t seed_prime = (0x[0-9a-fA-F]+)ULL; static uint64_t seed = fixed_seed_override \? fixed_seed_override : seed_prime; return seed;"


def check_hashing_header():
    rel = "include/llbuild/Basic/Hashing.h"
    src = strip_comments(read(rel))
    m = re.search(r"class CommandSignature\s*\{", src)
    if not m:
        raise ExtractError("class CommandSignature not found")
    body, _ = find_block(src, m.end() - 1)
    norm = re.sub(r"\s+", " ", body).strip()
    for what, rx in HASHING_REQUIRED:
        if not re.search(rx, norm):
            raise ExtractError("Hashing.h: %s does not have the modelled shape" % what)
    has_integral = re.search(HASHING_INTEGRAL, norm) is not None
    mv = re.search(HASHING_VECTOR, norm)
    if not mv:
        raise ExtractError("Hashing.h: vector overload does not have the modelled shape")
    flat = norm
    while True:      # erase function bodies (innermost blocks first)
        nxt = re.sub(r"\{[^{}]*\}", ";", flat)
        if nxt == flat:
            break
        flat = nxt
    n_combine = len(re.findall(r"\bcombine\(", flat))
    expect = 4 + (1 if has_integral else 0)
    if n_combine != expect:
        raise ExtractError("Hashing.h: %d combine overloads, %d understood" % (n_combine, expect))
    # fixed seed (llvm/ADT/Hashing.h + lib/llvm/Support/Hashing.cpp)
    rel2 = "include/llvm/ADT/Hashing.h"
    h = re.sub(r"\s+", " ", strip_comments(read(rel2)))
    ms = re.search(SEED_RE, h)
    if not ms:
        raise ExtractError("get_execution_seed: unexpected shape")
    rel3 = "lib/llvm/Support/Hashing.cpp"
    c = re.sub(r"\s+", " ", strip_comments(read(rel3)))
    if not re.search(r"(size_t|uint64_t) llvm::hashing::detail::fixed_seed_override = 0;", c):
        raise ExtractError("fixed_seed_override is not initialised to 0")
    return {"hasIntegral": has_integral, "vectorPrefixesLength": mv.group(1) is not None,
            "seed": int(ms.group(1), 16)}, [(rel, body), (rel2, ms.group(0)), (rel3, c)]


# ---------------------------------------------------------------- tools, command classes, attributes (text level)
CLASS_FILES = {  # classes declared outside BuildSystem.cpp: (declaration, out-of-line definitions)
    "ShellCommand": ("include/llbuild/BuildSystem/ShellCommand.h", "lib/BuildSystem/ShellCommand.cpp"),
    "ExternalCommand": ("include/llbuild/BuildSystem/ExternalCommand.h", "lib/BuildSystem/ExternalCommand.cpp"),
}
ROOT_CLASSES = ("Command", "Tool")      # pure-virtual configureAttribute: no attributes of their own
OVERLOAD_KINDS = ("scalar", "list", "map")


def overload_kind(params):
    if "std::pair" in params:
        return "map"
    if "ArrayRef" in params:
        return "list"
    return "scalar"


class ClassTable:
    """`class C : public B { … }` blocks and their configureAttribute overloads (comment-stripped text)."""

    def __init__(self):
        self.main_rel = "lib/BuildSystem/BuildSystem.cpp"
        self.main = strip_comments(read(self.main_rel))
        self.texts = {self.main_rel: self.main}
        self.cache = {}

    def text(self, rel):
        if rel not in self.texts:
            self.texts[rel] = strip_comments(read(rel))
        return self.texts[rel]

    def info(self, cname):
        """(base class, {kind: (names, delegate-or-None, accepts_anything)}) for the overloads the class defines"""
        if cname in self.cache:
            return self.cache[cname]
        decl_rel, def_rel = CLASS_FILES.get(cname, (self.main_rel, None))
        src = self.text(decl_rel)
        ms = list(re.finditer(r"\bclass %s\s*(?:final\s*)?:\s*public\s+([\w:]+)\s*\{" % re.escape(cname), src))
        if len(ms) != 1:
            raise ExtractError("class %s: %d definitions found in %s" % (cname, len(ms), decl_rel))
        base = ms[0].group(1).split("::")[-1]
        body, _ = find_block(src, ms[0].end() - 1)
        bodies = []
        for m in re.finditer(r"\bconfigureAttribute\s*\(([^()]*)\)\s*(?:override\s*)?\{", body):
            fb, _ = find_block(body, m.end() - 1)
            bodies.append((overload_kind(m.group(1)), fb))
        if def_rel:
            dsrc = self.text(def_rel)
            for m in re.finditer(r"\b%s::\s*configureAttribute\s*\(([^()]*)\)\s*\{" % re.escape(cname), dsrc):
                fb, _ = find_block(dsrc, m.end() - 1)
                bodies.append((overload_kind(m.group(1)), fb))
        ovs = {}
        for kind, fb in bodies:
            if kind in ovs:
                raise ExtractError("class %s: two %s configureAttribute overloads" % (cname, kind))
            names = re.findall(r'\bname\s*==\s*"([^"]*)"', fb)
            if len(re.findall(r"\bname\b\s*[=!]=", fb)) != len(names):
                raise ExtractError("class %s: configureAttribute compares `name` in a shape that is not understood" % cname)
            dels = set(re.findall(r"\b(\w+)::configureAttribute\s*\(", fb))
            if len(dels) > 1 or (dels and dels != {base}):
                raise ExtractError("class %s: configureAttribute delegates to %s (base is %s)" % (cname, sorted(dels), base))
            # an overload that neither delegates nor reports "unexpected attribute" accepts (and ignores) every other name
            anything = not dels and "unexpected attribute" not in fb
            ovs[kind] = (names, base if dels else None, anything)
        self.cache[cname] = (base, ovs)
        return self.cache[cname]

    def attributes(self, cname, kind):
        """names accepted by overload `kind` of class cname (own + delegated / inherited), and whether it accepts anything"""
        if cname in ROOT_CLASSES:
            return [], False
        base, ovs = self.info(cname)
        if kind not in ovs:
            return self.attributes(base, kind)
        names, delegate, anything = ovs[kind]
        if delegate:
            more, any2 = self.attributes(delegate, kind)
            return names + [n for n in more if n not in names], anything or any2
        return list(names), anything

    def signature_class(self, cname, found_by_cname):
        seen = []
        while cname not in found_by_cname:
            if cname in ROOT_CLASSES or cname in seen:
                raise ExtractError("no getSignature recipe up the inheritance chain of %s" % (seen[0] if seen else cname))
            seen.append(cname)
            cname = self.info(cname)[0]
        return found_by_cname[cname]


def tool_tables(found):
    ct = ClassTable()
    found_by_cname = {v[0]: cls for cls, v in found.items()}
    body = function_body(ct.main, r"BuildSystemFileDelegate::lookupTool\(StringRef name\)")
    pairs = re.findall(r'name\s*==\s*"([^"]+)"\s*\)\s*\{\s*return\s+llvm::make_unique<(\w+)>\(name\);', body)
    if len(pairs) != len(re.findall(r"make_unique<", body)) or len(pairs) != len(re.findall(r'name\s*==', body)) or not pairs:
        raise ExtractError("lookupTool: shape not understood")
    tools, attrs, toolattrs = [], [], []
    for tname, tcls in pairs:
        tbase, _ = ct.info(tcls)
        if tbase != "Tool":
            raise ExtractError("tool class %s does not derive from Tool" % tcls)
        ms = list(re.finditer(r"\bclass %s\b[^{]*\{" % tcls, ct.main))
        tbody, _ = find_block(ct.main, ms[0].end() - 1)
        cb = function_body(tbody, r"createCommand\(StringRef name\)\s*override")
        mk = re.findall(r"make_unique<(\w+)>\(name\b", cb)
        if len(mk) != 1 or len(re.findall(r"make_unique<", cb)) != 1:
            raise ExtractError("%s::createCommand: shape not understood" % tcls)
        ccls = mk[0]
        tools.append((tname, ccls, ct.signature_class(ccls, found_by_cname)))
        per = []
        for kind in OVERLOAD_KINDS:
            names, anything = ct.attributes(ccls, kind)
            per.append((kind, names, anything))
        attrs.append((tname, per))
        tl = []
        for kind in OVERLOAD_KINDS:
            tl += [n for n in ct.attributes(tcls, kind)[0] if n not in tl]
        toolattrs.append((tname, tl))
    srcs = [(rel, txt) for rel, txt in ct.texts.items()]
    return tools, attrs, toolattrs, srcs


def run():
    model_src = open(os.path.join(os.environ.get("VERIF_LEAN", os.path.join(VERIF, "lean")), "LLBuild", "Model", "Signature.lean")).read()
    fields, methods, clss = lean_enum(model_src, "Field"), lean_enum(model_src, "Method"), lean_enum(model_src, "Cls")
    hdr, sources = check_hashing_header()
    # the seed override must never be set by the libraries
    for root in ("lib", "products"):
        for dp, dn, fn in os.walk(os.path.join(REPO, root)):
            for f in fn:
                if f.endswith((".cpp", ".h", ".mm")):
                    t = open(os.path.join(dp, f), errors="replace").read()
                    if "set_fixed_execution_hash_seed(" in strip_comments(t) and not dp.endswith("llvm/Support"):
                        raise ExtractError("%s calls set_fixed_execution_hash_seed" % os.path.join(dp, f))
    out = ["import LLBuild.Model.Signature", "", "namespace LLBuild.Generated.Signature", "open LLBuild.Signature", ""]
    out.append("/-- `get_execution_seed()` constant (include/llvm/ADT/Hashing.h); `fixed_seed_override` is 0 and never set -/")
    out.append("def seed : UInt64 := 0x%x" % hdr["seed"])
    out.append("/-- Hashing.h has the integral `combine(T)` overload -/")
    out.append("def hasIntegralOverload : Bool := %s" % ("true" if hdr["hasIntegral"] else "false"))
    out.append("/-- the vector overload combines `list.size()` first -/")
    out.append("def vectorPrefixesLength : Bool := %s" % ("true" if hdr["vectorPrefixesLength"] else "false"))
    out.append("")
    found = {}
    for rel, wanted in TUS:
        tu = TU(rel, fields, methods)
        src_text = read(rel)
        for d in tu.docs:
            for fn in walk(d):
                if fn.get("kind") != "CXXMethodDecl" or fn.get("name") != "getSignature":
                    continue
                if not any(c.get("kind") == "CompoundStmt" for c in fn.get("inner", [])):
                    continue
                if os.path.basename(rel) not in (fn.get("loc", {}).get("file", os.path.basename(rel)) or "") and \
                        fn.get("loc", {}).get("includedFrom"):
                    continue
                # which class?  out-of-line definitions carry the parent through the `this` type
                this_t = next((qt(x) for x in walk(fn) if x.get("kind") == "CXXThisExpr"), None)
                if this_t is None:
                    raise ExtractError("%s: getSignature without `this`" % rel)
                cname = re.sub(r"^const |\s*\*$", "", this_t).split("::")[-1].strip()
                cls = dict(wanted).get(cname)
                if cls is None:
                    if cname in ("CommandSignature",):
                        continue
                    raise ExtractError("%s: getSignature of unexpected class %s" % (rel, cname))
                if cls in found:
                    raise ExtractError("two getSignature bodies for %s" % cname)
                if cls not in clss:
                    raise ExtractError("class %s not known to the Lean model (Cls)" % cls)
                steps, cache_field = tu.recipe(fn)
                if cache_field:
                    # the cache may only be touched inside getSignature (besides its declaration)
                    hits = [l for l in strip_comments(src_text).split("\n") if re.search(r"\b%s\b" % cache_field, l)]
                    if len(hits) != 2:
                        raise ExtractError("%s is referenced %d times in %s (expected load + store)" % (cache_field, len(hits), rel))
                rng = fn.get("range", {})
                found[cls] = (cname, rel, steps, rng.get("begin", {}).get("line"), rng.get("end", {}).get("line"))
        sources.append((rel, src_text))
    missing = [c for _, w in TUS for _, c in w if c not in found]
    if missing:
        raise ExtractError("getSignature not found for: %s" % ", ".join(missing))
    for cls in [c for _, w in TUS for _, c in w]:
        cname, rel, steps, l0, l1 = found[cls]
        out.append("/-- `%s::getSignature()` — %s -/" % (cname, rel))
        out.append("def %s : Recipe := [\n  %s]" % (cls, ",\n  ".join(steps)))
        out.append("")
    out.append("def recipeOf : Cls → Option Recipe")
    for cls in found:
        out.append("  | .%s => some %s" % (cls, cls))
    out.append("")
    out.append("def names : List (String × Cls) := [%s]" % ", ".join('("%s", .%s)' % (found[c][0], c) for c in found))
    out.append("")
    tools, attrs, toolattrs, tsrcs = tool_tables(found)
    for rel, txt in tsrcs:
        if rel not in [r for r, _ in sources]:
            sources.append((rel, txt))
    out.append("/-- built-in tools (`BuildSystemFileDelegate::lookupTool`): tool name, the command class its `createCommand`")
    out.append("makes, and the class whose `getSignature()` such a command runs (nearest override up the inheritance chain) -/")
    out.append("def tools : List (String × String × Cls) := [\n  %s]" % ",\n  ".join('("%s", "%s", .%s)' % t for t in tools))
    out.append("")
    out.append("/-- attribute names the command class of each tool compares `name` with in its `configureAttribute` overloads")
    out.append("(own overloads plus the base-class overloads they delegate to); `inputs`, `outputs` and `description` are separate")
    out.append("keys of the build file and are not listed -/")
    out.append("def commandAttributes : List (String × List String) := [\n  %s]" % ",\n  ".join(
        '("%s", [%s])' % (t, ", ".join('"%s"' % n for n in dict.fromkeys(n for _, names, _ in per for n in names))) for t, per in attrs))
    out.append("")
    out.append("/-- tools whose scalar `configureAttribute` overload neither delegates nor reports `unexpected attribute`: every other")
    out.append("scalar attribute (also the ExternalCommand flags) is accepted and IGNORED -/")
    out.append("def acceptsAnyScalarAttribute : List String := [%s]" % ", ".join('"%s"' % t for t, per in attrs if any(a for k, _, a in per if k == "scalar")))
    out.append("")
    out.append("/-- attributes of the tool itself (`tools:` section of the build file) -/")
    out.append("def toolLevelAttributes : List (String × List String) := [\n  %s]" % ",\n  ".join(
        '("%s", [%s])' % (t, ", ".join('"%s"' % n for n in names)) for t, names in toolattrs))
    out.append("")
    out.append("end LLBuild.Generated.Signature")
    return write_generated("SignatureRecipe", "\n".join(out), sources)


if __name__ == "__main__":
    print(run())
