"""X8 (+ the loader's share of X5/X7): tables used by the Ninja manifest *loader*
   -> Generated/NinjaLoaderTables.lean

   * Rule::isValidParameterName            (lib/Ninja/Manifest.cpp)       list of names
   * Lexer::isIdentifierChar / isSimpleIdentifierChar (include/llbuild/Ninja/Lexer.h)  ranges + singles
   * the single-character `$`-escapes of ManifestLoaderImpl::evalString   (lib/Ninja/ManifestLoader.cpp)
   * the build-level special names ("in", "in_newline", "out") and the parameter whose $in/$out are
     shell-escaped ("command")                                            (lib/Ninja/ManifestLoader.cpp)
   * appendShellEscapedString's whitelist                                 (lib/Basic/ShellUtility.cpp)
   Fails closed when a shape is not recognised."""
import re
from xcommon import *


def _char_class(body, what):
    """`return (c >= 'a' && c <= 'z') || ... || c == '_' || ...;` -> (ranges, singles)"""
    m = re.search(r"return\s*(.*?);", body, re.S)
    if not m:
        raise ExtractError(what + ": no return expression")
    expr = m.group(1)
    ranges, singles = [], []
    for term in [t.strip() for t in expr.split("||")]:
        r = re.fullmatch(r"\(\s*c\s*>=\s*'(.)'\s*&&\s*c\s*<=\s*'(.)'\s*\)", term)
        s = re.fullmatch(r"c\s*==\s*'(.)'", term)
        if r:
            ranges.append((ord(r.group(1)), ord(r.group(2))))
        elif s:
            singles.append(ord(s.group(1)))
        else:
            raise ExtractError("%s: unexpected term %r" % (what, term))
    if not ranges and not singles:
        raise ExtractError(what + ": empty class")
    return ranges, singles


def _lean_ranges(rs):
    return "[" + ", ".join("(%d, %d)" % r for r in rs) + "]"


def run():
    srcs = []
    # --- Rule::isValidParameterName --------------------------------------------------------
    rel = "lib/Ninja/Manifest.cpp"
    src = strip_comments(read(rel))
    body = function_body(src, r"bool\s+Rule::isValidParameterName\s*\(\s*StringRef\s+name\s*\)")
    m = re.fullmatch(r"\s*return\s*(.*?);\s*", body, re.S)
    if not m:
        raise ExtractError("isValidParameterName: unexpected shape")
    names = []
    for term in [t.strip() for t in m.group(1).split("||")]:
        t = re.fullmatch(r'name\s*==\s*"((?:[^"\\]|\\.)*)"', term)
        if not t:
            raise ExtractError("isValidParameterName: unexpected term %r" % term)
        names.append(c_string_bytes(t.group(1)))
    srcs.append((rel, body))
    # --- identifier classes ----------------------------------------------------------------
    rel = "include/llbuild/Ninja/Lexer.h"
    src = strip_comments(read(rel))
    b1 = function_body(src, r"static\s+bool\s+isIdentifierChar\s*\(\s*char\s+c\s*\)")
    b2 = function_body(src, r"static\s+bool\s+isSimpleIdentifierChar\s*\(\s*char\s+c\s*\)")
    ir, isg = _char_class(b1, "isIdentifierChar")
    sr, ssg = _char_class(b2, "isSimpleIdentifierChar")
    srcs.append((rel, b1 + b2))
    # --- evalString escapes, special names -------------------------------------------------
    rel = "lib/Ninja/ManifestLoader.cpp"
    src = strip_comments(read(rel))
    ev = function_body(src, r"void\s+evalString\s*\(\s*void\s*\*\s*userContext.*?\)\s*>\s*error\s*\)")
    m = re.search(r"if\s*\(\s*((?:c\s*==\s*'(?:[^'\\]|\\.)'\s*(?:\|\|)?\s*)+)\)\s*\{\s*result\s*<<\s*char\s*\(\s*c\s*\)", ev)
    if not m:
        raise ExtractError("evalString: single-character escape test not found")
    escapes = []
    for t in re.findall(r"c\s*==\s*'((?:[^'\\]|\\.))'", m.group(1)):
        escapes.extend(c_string_bytes(t))
    if not re.search(r"if\s*\(\s*c\s*==\s*'\\n'\s*\)", ev) or not re.search(r"if\s*\(\s*c\s*==\s*'\{'\s*\)", ev) \
            or not re.search(r"if\s*\(\s*c\s*==\s*'\}'\s*\)", ev) or not re.search(r"\*pos\s*==\s*'\$'", ev):
        raise ExtractError("evalString: '$', newline or brace tests not found")
    lk = function_body(src, r"void\s+lookupBuildParameterImpl\s*\([^)]*\)")
    m = re.search(r'if\s*\(\s*name\s*==\s*"(\w+)"\s*\|\|\s*name\s*==\s*"(\w+)"\s*\)\s*\{\s*const\s+auto\s+separator\s*=\s*name\s*==\s*"(\w+)"\s*\?\s*\'(.)\'\s*:\s*\'(\\?.)\'', lk)
    m2 = re.search(r'else\s+if\s*\(\s*name\s*==\s*"(\w+)"\s*\)\s*\{\s*for', lk)
    if not m or not m2 or m.group(3) != m.group(1):
        raise ExtractError("lookupBuildParameterImpl: in/in_newline/out tests not found")
    in_name, in_nl_name, out_name = m.group(1), m.group(2), m2.group(1)
    in_sep, nl_sep = c_string_bytes(m.group(4)), c_string_bytes(m.group(5))
    # order of the three lookups: build parameters, rule parameters, enclosing scope
    i1 = lk.find("decl->getParameters().find(name)")
    i2 = lk.find("decl->getRule()->getParameters().find(name)")
    i3 = lk.find("getCurrentScope().lookupBinding(name)")
    if not (0 <= i1 < i2 < i3):
        raise ExtractError("lookupBuildParameterImpl: lookup order build -> rule -> scope not recognised")
    nm = function_body(src, r"StringRef\s+lookupNamedBuildParameter\s*\([^)]*\)")
    m3 = re.search(r'LookupContext\s+context\s*\{\s*\*this\s*,\s*decl\s*,\s*startTok\s*,\s*(.*?)\}\s*;', nm, re.S)
    if not m3:
        raise ExtractError("lookupNamedBuildParameter: LookupContext initialiser not found")
    pol = m3.group(1).strip()
    eq_terms = [t.strip() for t in pol.split("||")]
    ne_terms = [t.strip() for t in pol.split("&&")]
    if all(re.fullmatch(r'name\s*==\s*"\w+"', t) for t in eq_terms):
        esc_listed, esc_names = True, [re.fullmatch(r'name\s*==\s*"(\w+)"', t).group(1) for t in eq_terms]
    elif all(re.fullmatch(r'name\s*!=\s*"\w+"', t) for t in ne_terms):
        esc_listed, esc_names = False, [re.fullmatch(r'name\s*!=\s*"(\w+)"', t).group(1) for t in ne_terms]
    else:
        raise ExtractError("lookupNamedBuildParameter: shellEscapeInAndOut expression not recognised: %r" % pol)
    srcs.append((rel, ev + lk + nm))
    # --- shell whitelist --------------------------------------------------------------------
    rel = "lib/Basic/ShellUtility.cpp"
    src = strip_comments(read(rel))
    body = function_body(src, r"void\s+appendShellEscapedString\s*\([^)]*\)")
    m = re.search(r'static\s+const\s+std::string\s+whitelist\s*=\s*"((?:[^"\\]|\\.)*)"\s*;', body)
    if not m:
        raise ExtractError("appendShellEscapedString: whitelist literal not found")
    wl = c_string_bytes(m.group(1))
    srcs.append((rel, body))

    def bs(s):
        return lean_bytes(list(s.encode()))
    lean = "namespace LLBuild.Generated.NinjaLoaderTables\n\n" \
           "/-- `Rule::isValidParameterName`: the names compared against, in source order -/\n" \
           "def ruleParamNames : List (List UInt8) := [%s]\n\n" % ", ".join(lean_bytes(n) for n in names) + \
           "/-- `Lexer::isIdentifierChar`: inclusive ranges and single characters -/\n" \
           "def identRanges : List (UInt8 × UInt8) := %s\ndef identSingles : List UInt8 := %s\n\n" % (_lean_ranges(ir), lean_bytes(isg)) + \
           "/-- `Lexer::isSimpleIdentifierChar` -/\n" \
           "def simpleIdentRanges : List (UInt8 × UInt8) := %s\ndef simpleIdentSingles : List UInt8 := %s\n\n" % (_lean_ranges(sr), lean_bytes(ssg)) + \
           "/-- `evalString`: characters `c` for which `$c` stands for `c` itself -/\n" \
           "def dollarEscapes : List UInt8 := %s\n\n" % lean_bytes(escapes) + \
           "/-- `lookupBuildParameterImpl`: the built-in names and their separators -/\n" \
           "def nameIn : List UInt8 := %s\ndef nameInNewline : List UInt8 := %s\ndef nameOut : List UInt8 := %s\n" % (bs(in_name), bs(in_nl_name), bs(out_name)) + \
           "def sepIn : List UInt8 := %s\ndef sepInNewline : List UInt8 := %s\n\n" % (lean_bytes(in_sep), lean_bytes(nl_sep)) + \
           "/-- `lookupNamedBuildParameter`: `shellEscapeInAndOut` is `name == n1 || ...` (listed = true)\n" \
           "    or `name != n1 && ...` (listed = false) over these names -/\n" \
           "def escapeListed : Bool := %s\ndef escapeNames : List (List UInt8) := [%s]\n\n" % ("true" if esc_listed else "false", ", ".join(bs(n) for n in esc_names)) + \
           "/-- `appendShellEscapedString`: characters that need no quoting -/\n" \
           "def shellWhitelist : List UInt8 := %s\n\nend LLBuild.Generated.NinjaLoaderTables\n" % lean_bytes(wl)
    return write_generated("NinjaLoaderTables", lean, srcs)


if __name__ == "__main__":
    print(run())
