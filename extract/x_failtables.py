"""X1/X11 (C10): value-kind decision chains -> Generated/FailTables.lean

Translated (statement by statement, fail closed on any unknown shape):
  include/llbuild/BuildSystem/BuildValue.h   enum Kind; every `bool isXxx() const` / kindHas* predicate body
  lib/BuildSystem/ExternalCommand.cpp        getResultForOutput, leading guards of isResultValid,
                                             provideValue (early return, assert list, getSkipValueForInput,
                                             missing-input bookkeeping), execute (skip path, process status switch)
  lib/BuildSystem/BuildSystem.cpp            every `class X : public ExternalCommand|Command` with its overrides of
                                             getResultForOutput / isResultValid; ProducedNodeTask /
                                             ProducedDirectoryNodeTask::isResultValid; the completion lambda of
                                             CommandTask (which result kinds are counted as command failures)
  lib/Basic/Subprocess.cpp                   cleanUpExecutedProcess (POSIX branch): wait status -> ProcessStatus
  lib/BuildSystem/ExternalCommand.cpp        start (which per-execution members it resets), providePriorValue,
  include/llbuild/BuildSystem/ExternalCommand.h   the canUpdateIfNewer bookkeeping of provideValue, the "update without running" block
                                             of execute, canUpdateIfNewerWithResult; member initialisers
"""
import re
from xcommon import *

BV = "include/llbuild/BuildSystem/BuildValue.h"
EC = "lib/BuildSystem/ExternalCommand.cpp"
BS = "lib/BuildSystem/BuildSystem.cpp"
SP = "lib/Basic/Subprocess.cpp"
ECH = "include/llbuild/BuildSystem/ExternalCommand.h"
# Linux signal numbers (asm-generic; x86/arm): names the classification may compare WTERMSIG against
SIGNUM = {"SIGHUP": 1, "SIGINT": 2, "SIGQUIT": 3, "SIGILL": 4, "SIGTRAP": 5, "SIGABRT": 6, "SIGIOT": 6, "SIGBUS": 7, "SIGFPE": 8,
          "SIGKILL": 9, "SIGUSR1": 10, "SIGSEGV": 11, "SIGUSR2": 12, "SIGPIPE": 13, "SIGALRM": 14, "SIGTERM": 15, "SIGSTKFLT": 16,
          "SIGCHLD": 17, "SIGCONT": 18, "SIGSTOP": 19, "SIGTSTP": 20, "SIGTTIN": 21, "SIGTTOU": 22, "SIGURG": 23, "SIGXCPU": 24,
          "SIGXFSZ": 25, "SIGVTALRM": 26, "SIGPROF": 27, "SIGWINCH": 28, "SIGIO": 29, "SIGPOLL": 29, "SIGPWR": 30, "SIGSYS": 31}


def lc(name):
    return name[0].lower() + name[1:]


# ------------------------------------------------------------------------------------------------
# tiny statement parser for the if-chains
# ------------------------------------------------------------------------------------------------
def skip_ws(s, i):
    while i < len(s) and s[i].isspace():
        i += 1
    return i


def match_paren(s, i):
    assert s[i] == "("
    d = 0
    j = i
    while j < len(s):
        c = s[j]
        if c == '"' or c == "'":
            q = c
            j += 1
            while j < len(s) and s[j] != q:
                if s[j] == "\\":
                    j += 1
                j += 1
        elif c == "(":
            d += 1
        elif c == ")":
            d -= 1
            if d == 0:
                return j
        j += 1
    raise ExtractError("unbalanced parentheses")


def parse_stmt(s, i):
    """returns (stmt, next index).  stmt is a tuple, see parse_stmts."""
    i = skip_ws(s, i)
    if s.startswith("{", i):
        body, j = find_block(s, i)
        return ("block", parse_stmts(body)), j
    m = re.compile(r"if\s*\(").match(s, i)
    if m:
        p = s.index("(", i)
        q = match_paren(s, p)
        cond = s[p + 1:q]
        then, j = parse_stmt(s, q + 1)
        k = skip_ws(s, j)
        els = None
        if re.compile(r"else\b").match(s, k):
            els, j = parse_stmt(s, k + 4)
        return ("if", cond, then, els), j
    m = re.compile(r"(for|while|switch)\s*\(").match(s, i)
    if m:
        p = s.index("(", i)
        q = match_paren(s, p)
        body, j = parse_stmt(s, q + 1)
        return ("loop", m.group(1), s[p + 1:q], body), j
    # simple statement up to ';' at depth 0
    j = i
    d = 0
    while j < len(s):
        c = s[j]
        if c == '"' or c == "'":
            q = c
            j += 1
            while j < len(s) and s[j] != q:
                if s[j] == "\\":
                    j += 1
                j += 1
        elif c in "({[":
            d += 1
        elif c in ")}]":
            d -= 1
        elif c == ";" and d == 0:
            break
        j += 1
    if j >= len(s):
        raise ExtractError("statement without terminator: " + s[i:i + 60])
    text = " ".join(s[i:j].split())
    if text == "":
        return ("empty",), j + 1
    if text.startswith("return"):
        return ("return", text[6:].strip()), j + 1
    if text.startswith("assert("):
        return ("assert", text[7:-1]), j + 1
    if text.startswith("llvm_unreachable("):
        return ("unreachable",), j + 1
    return ("simple", text), j + 1


def parse_stmts(s):
    out = []
    i = skip_ws(s, 0)
    while i < len(s):
        st, i = parse_stmt(s, i)
        out.append(st)
        i = skip_ws(s, i)
    return out


# ------------------------------------------------------------------------------------------------
# condition translator:  || && ! ( ) over a table of atoms
# ------------------------------------------------------------------------------------------------
class Cond:
    def __init__(self, text, atoms, preds):
        self.s = text
        self.i = 0
        self.atoms = atoms      # list of (regex, lean text)
        self.preds = preds      # names of BuildValue predicates

    def ws(self):
        while self.i < len(self.s) and self.s[self.i].isspace():
            self.i += 1

    def parse(self):
        e = self.p_or()
        self.ws()
        if self.i != len(self.s):
            raise ExtractError("cannot translate condition: %r (at %d)" % (self.s, self.i))
        return e

    def p_or(self):
        xs = [self.p_and()]
        self.ws()
        while self.s.startswith("||", self.i):
            self.i += 2
            xs.append(self.p_and())
            self.ws()
        return xs[0] if len(xs) == 1 else "(" + " || ".join(xs) + ")"

    def p_and(self):
        xs = [self.p_not()]
        self.ws()
        while self.s.startswith("&&", self.i):
            self.i += 2
            xs.append(self.p_not())
            self.ws()
        return xs[0] if len(xs) == 1 else "(" + " && ".join(xs) + ")"

    def p_not(self):
        self.ws()
        if self.s.startswith("!", self.i) and not self.s.startswith("!=", self.i):
            self.i += 1
            return "(!" + self.p_not() + ")"
        if self.s.startswith("(", self.i):
            q = match_paren(self.s, self.i)
            inner = Cond(self.s[self.i + 1:q], self.atoms, self.preds).parse()
            self.i = q + 1
            return inner
        m = re.compile(r"(?:value|result|kind|this)?(?:\.|->)?(is\w+|kindHas\w+)\(\)").match(self.s, self.i)
        if m and m.group(0).startswith(("value.", "result.", "is", "kindHas")) and m.group(1) in self.preds:
            self.i = m.end()
            return "%s k" % m.group(1)
        m = re.compile(r"kind\s*==\s*Kind::(\w+)").match(self.s, self.i)
        if m:
            self.i = m.end()
            return "(k == .%s)" % lc(m.group(1))
        for rx, lean in self.atoms:
            m = re.compile(rx).match(self.s, self.i)
            if m:
                self.i = m.end()
                return lean
        raise ExtractError("unknown atom in condition %r at %r" % (self.s, self.s[self.i:self.i + 40]))


# ------------------------------------------------------------------------------------------------
# chain translator
# ------------------------------------------------------------------------------------------------
class Chain:
    """Turns a statement list into a nested Lean if-expression of type Res (or Option Bool)."""

    def __init__(self, preds, atoms, ret, decl_ok, stop_ok=False, stop_value=None):
        self.preds, self.atoms, self.ret = preds, atoms, ret
        self.decl_ok = decl_ok          # list of regexes for side-effect-free declarations that may be skipped
        self.stop_ok = stop_ok          # an untranslatable statement ends the chain with stop_value
        self.stop_value = stop_value
        self.asserts = []

    def seq(self, stmts, fall):
        """Lean expr for executing stmts then (if control falls off the end) `fall` (None = must not fall)."""
        if not stmts:
            if fall is None:
                raise ExtractError("control reaches the end of the function")
            return fall
        st, rest = stmts[0], stmts[1:]
        k = st[0]
        if k == "empty":
            return self.seq(rest, fall)
        if k == "assert":
            self.asserts.append(st[1])
            return self.seq(rest, fall)
        if k == "unreachable":
            return ".unreachable"
        if k == "return":
            return self.ret(st[1])
        if k == "block":
            return self.seq(st[1] + rest, fall)
        if k == "if":
            try:
                c = Cond(st[1], self.atoms, self.preds).parse()
            except ExtractError:
                if self.stop_ok:
                    return self.stop_value
                raise
            tail = self.seq(rest, fall) if (rest or fall is not None) else None
            thn = self.seq([st[2]], tail)
            if st[3] is not None:
                els = self.seq([st[3]], tail)
            else:
                if tail is None:
                    raise ExtractError("if without else at the end of a chain")
                els = tail
            return "(if %s then %s else %s)" % (c, thn, els)
        if k == "simple":
            if any(re.fullmatch(rx, st[1]) for rx in self.decl_ok):
                return self.seq(rest, fall)
        if self.stop_ok:
            return self.stop_value
        raise ExtractError("cannot translate statement: %r" % (st,))


def class_body(src, name):
    m = re.search(r"\bclass\s+%s\s*(?:final\s*)?:\s*public\s+(\w+)\s*\{" % name, src)
    if not m:
        raise ExtractError("class not found: " + name)
    body, _ = find_block(src, m.end() - 1)
    return m.group(1), body


def method_body(body, name, required=True):
    m = re.search(r"\b%s\s*\([^;{}]*?\)\s*(?:const\s*)?(?:override\s*)?\{" % name, body, re.S)
    if not m:
        if required:
            raise ExtractError("method not found: " + name)
        return None
    b, _ = find_block(body, m.end() - 1)
    return b


def assign_chain(stmts, var, cur, atoms, preds):
    """Lean Bool expression for the value of member `var` after executing `stmts` (only `var = true|false` assignments
    under if/else are allowed), `cur` being its value before."""
    for st in stmts:
        k = st[0]
        if k == "empty":
            continue
        if k == "block":
            cur = assign_chain(st[1], var, cur, atoms, preds)
        elif k == "simple":
            m = re.fullmatch(r"%s = (true|false)" % var, st[1])
            if not m:
                raise ExtractError("unexpected statement where only `%s = ...` is understood: %r" % (var, st[1]))
            cur = m.group(1)
        elif k == "if":
            c = Cond(st[1], atoms, preds).parse()
            t = assign_chain([st[2]], var, cur, atoms, preds)
            e = assign_chain([st[3]], var, cur, atoms, preds) if st[3] is not None else cur
            cur = "(if %s then %s else %s)" % (c, t, e)
        else:
            raise ExtractError("unexpected statement where only `%s = ...` is understood: %r" % (var, st))
    return cur


def posix_text(body):
    """the lines of a function body that are compiled when _WIN32 is not defined (any other directive: fail closed)"""
    out, stack = [], []
    for line in body.split("\n"):
        t = line.strip()
        if t.startswith("#"):
            d = " ".join(t[1:].split())
            if d == "if defined(_WIN32)":
                stack.append("win")
            elif d.startswith("else"):
                if not stack:
                    raise ExtractError("#else without #if")
                stack[-1] = "posix" if stack[-1] == "win" else "win"
            elif d.startswith("endif"):
                if not stack:
                    raise ExtractError("#endif without #if")
                stack.pop()
            else:
                raise ExtractError("preprocessor directive not understood in cleanUpExecutedProcess: " + t)
            continue
        if "win" not in stack:
            out.append(line)
    if stack:
        raise ExtractError("unbalanced preprocessor conditionals")
    return "\n".join(out)


def wait_cond(text, env):
    """condition over the wait status `exitCode` (macros of <sys/wait.h>, comparisons, earlier bool locals) -> Lean over `w`"""
    atoms = []

    def ph(lean):
        atoms.append((r"@A%d@" % len(atoms), lean))
        return "@A%d@" % (len(atoms) - 1)

    def cmpm(m):
        rhs = m.group(3)
        if rhs.isdigit():
            v = rhs
        elif rhs in SIGNUM:
            v = str(SIGNUM[rhs])
        else:
            raise ExtractError("unknown constant in wait-status comparison: " + rhs)
        return ph("(%s w %s %s)" % (m.group(1), m.group(2), v))
    text = re.sub(r"\b(WTERMSIG|WEXITSTATUS|WSTOPSIG)\(exitCode\)\s*(==|!=)\s*(\w+)", cmpm, text)
    text = re.sub(r"\bexitCode\s*(==|!=)\s*(\d+)", lambda m: ph("(w %s %s)" % (m.group(1), m.group(2))), text)
    text = re.sub(r"\b(WIFSIGNALED|WIFEXITED|WIFSTOPPED|WCOREDUMP)\(exitCode\)", lambda m: ph("%s w" % m.group(1)), text)
    for name, lean in env.items():
        text = re.sub(r"\b%s\b" % re.escape(name), lambda m: ph(lean), text)
    if re.search(r"[A-Za-z_]", re.sub(r"@A\d+@", "", text)):
        raise ExtractError("cannot translate wait-status condition: %r" % text)
    return Cond(text, atoms, []).parse()


def split_top(text, ch):
    """index of the first `ch` at parenthesis depth 0 that closes the ternary opened at the start (for ':'), or of the first '?'"""
    d = q = 0
    for i, c in enumerate(text):
        if c == "(":
            d += 1
        elif c == ")":
            d -= 1
        elif d == 0 and c == "?":
            if ch == "?":
                return i
            q += 1
        elif d == 0 and c == ":" and ch == ":":
            if q == 0:
                return i
            q -= 1
    return -1


def wait_ternary(text, env, statuses):
    text = text.strip()
    while text.startswith("(") and match_paren(text, 0) == len(text) - 1:
        text = text[1:-1].strip()
    q = split_top(text, "?")
    if q < 0:
        m = re.fullmatch(r"ProcessStatus\.(\w+)", text)
        if not m or m.group(1) not in statuses:
            raise ExtractError("cannot translate process status expression: %r" % text)
        return "." + lc(m.group(1))
    c = split_top(text[q + 1:], ":")
    if c < 0:
        raise ExtractError("ternary without ':' in %r" % text)
    return "(if %s then %s else %s)" % (wait_cond(text[:q], env), wait_ternary(text[q + 1:q + 1 + c], env, statuses),
                                        wait_ternary(text[q + 2 + c:], env, statuses))



def run():
    bv = strip_comments(read(BV))
    ec = strip_comments(read(EC))
    bs = strip_comments(read(BS))
    used = []

    # ---- Kind enum -------------------------------------------------------------------------------
    m = re.search(r"enum\s+class\s+Kind\s*:\s*uint32_t\s*\{", bv)
    if not m:
        raise ExtractError("BuildValue::Kind not found")
    ebody, _ = find_block(bv, m.end() - 1)
    used.append((BV, ebody))
    kinds = []
    nxt = 0
    for item in [x.strip() for x in ebody.split(",") if x.strip()]:
        mm = re.fullmatch(r"(\w+)(?:\s*=\s*(\d+))?", item)
        if not mm:
            raise ExtractError("enumerator: " + item)
        if mm.group(2) is not None:
            nxt = int(mm.group(2))
        kinds.append((mm.group(1), nxt))
        nxt += 1
    if [o for _, o in kinds] != list(range(len(kinds))):
        raise ExtractError("Kind ordinals are not 0..n-1")
    knames = [k for k, _ in kinds]

    # ---- predicates --------------------------------------------------------------------------------
    preds = []
    pred_src = []
    for mm in re.finditer(r"bool\s+(is[A-Z]\w*|kindHas\w+)\s*\(\s*\)\s*const\s*\{", bv):
        body, _ = find_block(bv, mm.end() - 1)
        preds.append((mm.group(1), body))
        pred_src.append(mm.group(0) + body)
    used.append((BV, "\n".join(pred_src)))
    pnames = [p for p, _ in preds]
    if len(set(pnames)) != len(pnames):
        raise ExtractError("duplicate predicate")
    for need in ("isSuccessfulCommand", "isFailedCommand", "isPropagatedFailureCommand", "isCancelledCommand",
                 "isFailedInput", "isMissingInput", "isSkippedCommand", "kindHasOutputInfo"):
        if need not in pnames:
            raise ExtractError("predicate missing: " + need)
    # predicates may refer to each other in any order: emit in dependency order
    pdefs = {}
    for name, body in preds:
        st = parse_stmts(body)
        if len(st) != 1 or st[0][0] != "return":
            raise ExtractError("predicate %s is not a single return" % name)
        pdefs[name] = Cond(st[0][1], [], pnames).parse()
    order = []

    def visit(n, stack=()):
        if n in order:
            return
        if n in stack:
            raise ExtractError("recursive predicate " + n)
        for d in re.findall(r"\b(is\w+|kindHas\w+) k\b", pdefs[n]):
            visit(d, stack + (n,))
        order.append(n)
    for n in pnames:
        visit(n)

    L = []
    L.append("set_option linter.unusedVariables false\n\nnamespace LLBuild.Generated.FailTables\n")
    L.append("/-- `BuildValue::Kind`, in declaration order (ordinal = position). -/")
    L.append("inductive Kind where\n" + "\n".join("  | %s" % lc(k) for k in knames) + "\n  deriving DecidableEq, Repr, Inhabited\n")
    L.append("def Kind.all : List Kind := [" + ", ".join("." + lc(k) for k in knames) + "]\n")
    L.append("def Kind.ord : Kind → Nat\n" + "\n".join("  | .%s => %d" % (lc(k), o) for k, o in kinds) + "\n")
    L.append("def Kind.name : Kind → String\n" + "\n".join('  | .%s => "%s"' % (lc(k), k) for k in knames) + "\n")
    L.append("/-! Predicates of `BuildValue`, bodies as written. -/")
    for n in order:
        L.append("def %s (k : Kind) : Bool := %s" % (n, pdefs[n]))
    L.append("\ndef predicates : List (String × (Kind → Bool)) := [" + ", ".join('("%s", %s)' % (n, n) for n in pnames) + "]\n")

    L.append("/-- outcome of a decision chain: a value kind, the producer's value unchanged, `llvm_unreachable`,\n"
             "    or \"none of the guards fired\" (`llvm::None` / the part of `isResultValid` that looks at the file system) -/")
    L.append("inductive Res where\n  | kind (k : Kind)\n  | asIs\n  | unreachable\n  | continue\n  deriving DecidableEq, Repr\n")

    def ret_value(expr):
        mm = re.fullmatch(r"BuildValue::make(\w+)\((.*)\)", expr)
        if mm:
            if mm.group(1) not in knames:
                raise ExtractError("make%s: no such kind" % mm.group(1))
            return "(.kind .%s)" % lc(mm.group(1))
        if expr == "BuildValue::fromData(value.toData())":
            return ".asIs"
        if expr == "llvm::None":
            return ".continue"
        if expr == "ExternalCommand::getResultForOutput(node, value)":
            return "(resultForOutput_ExternalCommand k virt ts miss)"
        raise ExtractError("cannot translate return value: " + expr)

    # node / info atoms of getResultForOutput
    rfo_atoms = [(r"buildNode->isVirtual\(\)", "virt"), (r"buildNode->isCommandTimestamp\(\)", "ts"),
                 (r"info\.isMissing\(\)", "miss")]
    # declarations that only name things; `info` must be this node's slot in the value
    rfo_decls = [r"auto buildNode = static_cast<BuildNode\*>\(node\)",
                 r"auto it = std::find\(outputs\.begin\(\), outputs\.end\(\), node\)",
                 r"auto idx = it - outputs\.begin\(\)",
                 r"auto& info = value\.getNthOutputInfo\(idx\)",
                 r"auto info = value\.getOutputInfo\(\)"]

    # ---- ExternalCommand ----------------------------------------------------------------------------
    b_rfo = function_body(ec, r"BuildValue\s+ExternalCommand::\s*getResultForOutput\s*\([^)]*\)")
    b_valid = function_body(ec, r"bool\s+ExternalCommand::isResultValid\s*\([^)]*\)")
    b_prov = function_body(ec, r"void\s+ExternalCommand::provideValue\s*\([^)]*\)")
    b_exec = function_body(ec, r"void\s+ExternalCommand::execute\s*\([^)]*\)")
    used += [(EC, b_rfo), (EC, b_valid), (EC, b_prov), (EC, b_exec)]

    classes = [("ExternalCommand", "Command", b_rfo, b_valid)]
    for mm in re.finditer(r"\bclass\s+(\w+)\s*(?:final\s*)?:\s*public\s+(ExternalCommand|Command)\s*\{", bs):
        body, _ = find_block(bs, mm.end() - 1)
        used.append((BS, mm.group(0) + body))
        classes.append((mm.group(1), mm.group(2), method_body(body, "getResultForOutput", False),
                        method_body(body, "isResultValid", False)))
    # ShellCommand lives in its own file and must not override either method
    sh = strip_comments(read("include/llbuild/BuildSystem/ShellCommand.h")) + strip_comments(read("lib/BuildSystem/ShellCommand.cpp"))
    if re.search(r"\b(getResultForOutput|isResultValid)\b", sh):
        raise ExtractError("ShellCommand now overrides getResultForOutput/isResultValid: extend the extractor")
    if not re.search(r"class\s+ShellCommand\s*:\s*public\s+ExternalCommand", sh):
        raise ExtractError("ShellCommand is no longer an ExternalCommand")
    used.append(("include/llbuild/BuildSystem/ShellCommand.h", "class ShellCommand : public ExternalCommand; no overrides"))
    classes.append(("ShellCommand", "ExternalCommand", None, None))

    L.append("/-- the command classes of the build system (`ExternalCommand` = the shared base implementation) -/")
    L.append("inductive CommandClass where\n" + "\n".join("  | %s" % lc(c[0]) for c in classes) + "\n  deriving DecidableEq, Repr\n")
    L.append("def CommandClass.all : List CommandClass := [" + ", ".join("." + lc(c[0]) for c in classes) + "]\n")
    L.append("def CommandClass.name : CommandClass → String\n" + "\n".join('  | .%s => "%s"' % (lc(c[0]), c[0]) for c in classes) + "\n")
    L.append("/-- does the class derive from `ExternalCommand` (and so share its provideValue / execute)? -/")
    L.append("def CommandClass.isExternal : CommandClass → Bool\n" + "\n".join(
        "  | .%s => %s" % (lc(c[0]), "true" if (c[1] == "ExternalCommand" or c[0] == "ExternalCommand") else "false") for c in classes) + "\n")

    L.append("/-! `getResultForOutput(node, value)`: k = kind of the producer's value, virt/ts = node->isVirtual() /\n"
             "   isCommandTimestamp(), miss = the node's output info in the value `isMissing()`. -/")
    rfo_asserts = {}
    for name, base, rfo, valid in classes:
        if rfo is None:
            if base == "Command":
                raise ExtractError("%s: pure virtual getResultForOutput not overridden" % name)
            continue
        ch = Chain(pnames, rfo_atoms, ret_value, rfo_decls)
        e = ch.seq(parse_stmts(rfo), None)
        L.append("def resultForOutput_%s (k : Kind) (virt ts miss : Bool) : Res :=\n  %s" % (name, e))
        for a in ch.asserts:
            if re.search(r"\bvalue\.is\w+\(\)", a):     # asserts about indices are not about the kind
                rfo_asserts.setdefault(name, []).append(Cond(a, rfo_atoms, pnames).parse())
        L.append("/-- the precondition asserted inside (compiled out under NDEBUG) -/")
        L.append("def resultForOutputAssert_%s (k : Kind) : Bool := %s" % (name, " && ".join(rfo_asserts.get(name, [])) or "true"))
    L.append("\ndef resultForOutput : CommandClass → Kind → Bool → Bool → Bool → Res\n" + "\n".join(
        "  | .%s => resultForOutput_%s" % (lc(c[0]), c[0] if c[2] is not None else "ExternalCommand") for c in classes) + "\n")
    L.append("def resultForOutputAssert : CommandClass → Kind → Bool\n" + "\n".join(
        "  | .%s => resultForOutputAssert_%s" % (lc(c[0]), c[0] if c[2] is not None else "ExternalCommand") for c in classes) + "\n")

    # ---- isResultValid leading guards -----------------------------------------------------------------
    L.append("/-- configuration / value facts the leading guards of `isResultValid` look at -/")
    L.append("structure ValidEnv where\n  alwaysOutOfDate : Bool\n  outputsEmpty : Bool\n  outputPathEmpty : Bool\n  numOutputsNe1 : Bool\n  deriving DecidableEq, Repr\n")
    L.append("def ValidEnv.all : List ValidEnv := Id.run do\n  let bs := [false, true]\n  let mut out := []\n"
             "  for a in bs do\n    for b in bs do\n      for c in bs do\n        for d in bs do\n          out := out ++ [⟨a, b, c, d⟩]\n  return out\n")
    valid_atoms = [(r"alwaysOutOfDate\b", "e.alwaysOutOfDate"), (r"outputs\.empty\(\)", "e.outputsEmpty"),
                   (r"outputPath\.empty\(\)", "e.outputPathEmpty"), (r"value\.getNumOutputs\(\)\s*!=\s*1", "e.numOutputsNe1")]

    def ret_bool(expr):
        if expr == "false":
            return "(some false)"
        if expr == "true":
            return "(some true)"
        return "none"    # depends on more than the kind (file system): not decided by the guards

    L.append("/-! Leading guards of `isResultValid`: `some b` = decided by the guards, `none` = falls through to the\n"
             "   part that consults the file system. -/")
    for name, base, rfo, valid in classes:
        if valid is None:
            if base == "Command":
                raise ExtractError("%s: pure virtual isResultValid not overridden" % name)
            continue
        ch = Chain(pnames, valid_atoms, ret_bool, [r"StringRef outputPath = getActualOutputPath\(\)"], stop_ok=True, stop_value="none")
        e = ch.seq(parse_stmts(valid), "none")
        L.append("def resultValidGuards_%s (k : Kind) (e : ValidEnv) : Option Bool :=\n  %s" % (name, e))
    L.append("\ndef resultValidGuards : CommandClass → Kind → ValidEnv → Option Bool\n" + "\n".join(
        "  | .%s => resultValidGuards_%s" % (lc(c[0]), c[0] if c[3] is not None else "ExternalCommand") for c in classes) + "\n")

    # ---- provideValue -----------------------------------------------------------------------------------
    st = parse_stmts(b_prov)
    # shape: call to subclass; if (...) { return; }; assert; assert; auto getSkipValueForInput = [&]() -> ... { ... }; auto skipValueForInput = ...; if (...) {...} else {...}
    idx = 0
    if not (st[idx][0] == "simple" and st[idx][1].startswith("provideValueExternalCommand(")):
        raise ExtractError("provideValue: expected the call to provideValueExternalCommand first")
    idx += 1
    if not (st[idx][0] == "if" and st[idx][3] is None and st[idx][2] in (("block", [("return", "")]), ("return", ""))):
        raise ExtractError("provideValue: expected the early-return guard")
    early = Cond(st[idx][1], [], pnames).parse()
    idx += 1
    asserts = []
    while st[idx][0] == "assert":
        asserts.append(st[idx][1])
        idx += 1
    if len(asserts) != 2 or asserts[0] != "!value.hasMultipleOutputs()":
        raise ExtractError("provideValue: unexpected asserts %r" % asserts)
    assert_dom = Cond(asserts[1], [], pnames).parse()
    mm = re.search(r"auto\s+getSkipValueForInput\s*=\s*\[&\]\s*\(\s*\)\s*->\s*llvm::Optional<BuildValue>\s*\{", b_prov)
    if not mm:
        raise ExtractError("getSkipValueForInput lambda not found")
    lam, lam_end = find_block(b_prov, mm.end() - 1)
    ch = Chain(pnames, [(r"allowMissingInputs\b", "allowMissingInputs")], ret_value, [])
    skip_e = ch.seq(parse_stmts(lam), None)
    rest = parse_stmts(b_prov[lam_end:].lstrip().lstrip(";"))
    if not (len(rest) == 2 and rest[0] == ("simple", "auto skipValueForInput = getSkipValueForInput()") and rest[1][0] == "if"
            and " ".join(rest[1][1].split()) == "skipValueForInput.hasValue()"):
        raise ExtractError("provideValue: unexpected tail %r" % (rest,))
    thn = rest[1][2]
    if not (thn[0] == "block" and thn[1][0] == ("simple", "skipValue = std::move(skipValueForInput)") and len(thn[1]) == 2
            and thn[1][1][0] == "if"):
        raise ExtractError("provideValue: skip branch does not store the skip value first")
    rec_missing = Cond(thn[1][1][1], [], pnames).parse()
    inner = thn[1][1]
    pushes = re.findall(r"missingInputKeys\.push_back", b_prov)
    if len(pushes) != 2 or repr(inner[2]).count("missingInputKeys.push_back") != 2 or inner[3] is not None:
        raise ExtractError("provideValue: missing-input bookkeeping changed")
    els = rest[1][3]
    if "skipValue" in repr(els):
        raise ExtractError("provideValue: the no-skip branch touches skipValue")
    L.append("/-! `ExternalCommand::provideValue` -/")
    L.append("/-- values of these kinds return before any input processing (\"requested for a custom task\") -/")
    L.append("def provideValueEarlyReturn (k : Kind) : Bool := %s" % early)
    L.append("/-- the kinds the second assert admits as direct inputs -/")
    L.append("def provideValueAssert (k : Kind) : Bool := %s" % assert_dom)
    L.append("/-- `getSkipValueForInput`: `.continue` = `llvm::None` (do not skip), `.kind k'` = skip and complete with k' -/")
    L.append("def skipValueForInput (k : Kind) (allowMissingInputs : Bool) : Res :=\n  %s" % skip_e)
    L.append("/-- when a skip value was produced: is the input recorded in `missingInputKeys`? -/")
    L.append("def recordsMissingInput (k : Kind) : Bool := %s\n" % rec_missing)

    # ---- execute: skip path and process status ------------------------------------------------------------
    st = parse_stmts(b_exec)
    if not (st[0][0] == "if" and " ".join(st[0][1].split()) == "skipValue.hasValue()" and st[0][3] is None and st[0][2][0] == "block"):
        raise ExtractError("execute: the skip test is no longer the first statement")
    blk = st[0][2][1]
    if not (len(blk) == 3 and blk[0][0] == "if" and blk[0][3] is None
            and blk[1] == ("simple", "resultFn(std::move(skipValue.getValue()))") and blk[2] == ("return", "")):
        raise ExtractError("execute: unexpected skip block %r" % (blk,))
    rep = Cond(blk[0][1], [(r"missingInputKeys\.empty\(\)", "missingEmpty")], pnames).parse()
    if "hadCommandFailure()" not in repr(blk[0][2]):
        raise ExtractError("execute: skip path no longer reports the failure")
    tail = repr(st[1:])
    for needle in ("commandStarted", "executeExternalCommand"):
        if needle in repr(st[0]) or needle not in tail:
            raise ExtractError("execute: %s is not strictly after the skip block" % needle)
    L.append("/-! `ExternalCommand::execute`: the first statement returns the stored skip value (the command is not started);\n"
             "   the failure is reported to the delegate on that path iff: -/")
    L.append("def skipPathReportsFailure (missingEmpty : Bool) : Bool := %s" % rep)
    L.append("/-- extracted shape fact: `commandStarted` / `executeExternalCommand` occur only after the skip block's `return` -/")
    L.append("def skipBlockReturnsBeforeRun : Bool := true\n")
    msw = re.search(r"switch\s*\(\s*result\.status\s*\)\s*\{", b_exec)
    if not msw:
        raise ExtractError("execute: process status switch not found")
    sw, _ = find_block(b_exec, msw.end() - 1)
    cases = re.findall(r"case\s+ProcessStatus::(\w+)\s*:", sw)
    stat = {}
    pend = []
    pos = 0
    for mm in re.finditer(r"case\s+ProcessStatus::(\w+)\s*:\s*", sw):
        pend.append((mm.group(1), mm.end()))
    for i, (nm, start) in enumerate(pend):
        end = sw.find("case ProcessStatus::", start)
        seg = sw[start:end if end >= 0 else len(sw)].strip()
        stat[nm] = seg
    # fallthrough: an empty segment takes the next one
    names = [n for n, _ in pend]
    for i in range(len(names) - 2, -1, -1):
        if stat[names[i]] == "":
            stat[names[i]] = stat[names[i + 1]]
    after = b_exec[b_exec.index(sw) + len(sw):]

    def stat_res(seg):
        seg = " ".join(seg.split())
        mm = re.fullmatch(r"resultFn\(BuildValue::make(\w+)\(\)\); return;", seg)
        if mm:
            return "(.kind .%s)" % lc(mm.group(1))
        if seg == "resultFn(computeCommandResult(system, ti)); return;":
            return ".continue"
        if seg == "break;" and "report_fatal_error" in after:
            return ".unreachable"
        raise ExtractError("execute: cannot translate status case %r" % seg)
    L.append("inductive ProcStatus where\n" + "\n".join("  | %s" % lc(n) for n in names) + "\n  deriving DecidableEq, Repr\n")
    L.append("def ProcStatus.all : List ProcStatus := [" + ", ".join("." + lc(n) for n in names) + "]\n")
    L.append("/-- result of an executed external command per process status (`.continue` = `computeCommandResult`, a successful kind;\n"
             "    `.unreachable` = report_fatal_error) -/")
    L.append("def processResult : ProcStatus → Res\n" + "\n".join("  | .%s => %s" % (lc(n), stat_res(stat[n])) for n in names) + "\n")
    mcr = function_body(ec, r"BuildValue\s+ExternalCommand::computeCommandResult\s*\([^)]*\)")
    rets = re.findall(r"return\s+([^;]*);", mcr)
    if len(rets) != 1 or not re.fullmatch(r"BuildValue::makeSuccessfulCommand\(outputInfos\)", rets[0].strip()):
        raise ExtractError("computeCommandResult no longer returns exactly makeSuccessfulCommand")
    used.append((EC, mcr))
    L.append("def computeCommandResultKind : Kind := .successfulCommand\n")

    # ---- produced node tasks ----------------------------------------------------------------------------------
    for cname, lname in (("ProducedNodeTask", "producedNodeValid"), ("ProducedDirectoryNodeTask", "producedDirectoryNodeValid")):
        _, body = class_body(bs, cname)
        vb = method_body(body, "isResultValid")
        used.append((BS, cname + "::isResultValid" + vb))
        ch = Chain(pnames, [], lambda e: {"false": "false", "true": "true"}.get(e) or (_ for _ in ()).throw(ExtractError("return " + e)), [])
        L.append("def %s (k : Kind) : Bool :=\n  %s" % (lname, ch.seq(parse_stmts(vb), None)))
        # the value a produced node gets is exactly the producer's getResultForOutput
        pv = method_body(body, "provideValue")
        if len(re.findall(r"nodeResult\s*=", pv)) != 1 or not re.search(r"nodeResult\s*=\s*producingCommand->getResultForOutput\(&node,\s*value\)", pv):
            raise ExtractError(cname + "::provideValue no longer stores getResultForOutput(&node, value)")
        used.append((BS, cname + "::provideValue" + pv))
    L.append("")

    # ---- CommandTask completion ----------------------------------------------------------------------------------
    _, body = class_body(bs, "CommandTask")
    ia = method_body(body, "inputsAvailable")
    used.append((BS, "CommandTask::inputsAvailable" + ia))
    mm = re.search(r"command\.execute\s*\([^\[]*\[ti\]\s*\(\s*BuildValue&&\s*result\s*\)\s*mutable\s*\{", ia)
    if not mm:
        raise ExtractError("CommandTask: completion lambda not found")
    lam, _ = find_block(ia, mm.end() - 1)
    st = parse_stmts(lam)
    if not (len(st) == 2 and st[0][0] == "if" and st[0][3] is None and "hadCommandFailure()" in repr(st[0][2])
            and st[1] == ("simple", "ti.complete(result.toData())")):
        raise ExtractError("CommandTask: unexpected completion lambda %r" % (st,))
    rep = Cond(st[0][1], [(r"ti\.isCancelled\(\)", "buildCancelled")], pnames).parse()
    L.append("/-- `CommandTask`: the delegate's `hadCommandFailure()` is called for a completed command iff -/")
    L.append("def commandTaskReportsFailure (k : Kind) (buildCancelled : Bool) : Bool := %s\n" % rep)
    # the two early completions before execute
    pre = ia[:mm.start()]
    early_c = re.findall(r"ti\.complete\(BuildValue::make(\w+)\(\)\.toData\(\)\)", pre)
    if early_c != ["CancelledCommand", "SkippedCommand"]:
        raise ExtractError("CommandTask: early completions changed: %r" % early_c)
    L.append("/-- completions of `CommandTask` that never reach `Command::execute` (build cancelled / delegate declined) -/")
    L.append("def commandTaskEarlyCompletions : List Kind := [.cancelledCommand, .skippedCommand]\n")


    # ---- wait status -> ProcessStatus (Subprocess.cpp, POSIX branch of cleanUpExecutedProcess) -------------------------
    sp = strip_comments(read(SP))
    b_clean = function_body(sp, r"static\s+void\s+cleanUpExecutedProcess\s*\([^)]*\)")
    used.append((SP, b_clean))
    px = posix_text(b_clean)
    wst = parse_stmts(px)
    if not any(x[0] == "simple" and re.fullmatch(r"int exitCode, result = wait4\(pid, &exitCode, 0, &usage\)", x[1]) for x in wst):
        raise ExtractError("cleanUpExecutedProcess: `exitCode` is no longer the status filled in by wait4(pid, &exitCode, 0, ...)")
    if re.search(r"\bexitCode\s*(?:[-+|&^]|<<|>>)?=[^=]", px.replace("int exitCode, result = wait4", "")) or \
            len(re.findall(r"&\s*exitCode", px)) != len(re.findall(r"wait4\(pid, &exitCode, 0, &usage\)", px)):
        raise ExtractError("cleanUpExecutedProcess: the wait status is modified before it is classified")
    try:
        at = next(i for i, x in enumerate(wst) if x[0] == "if" and " ".join(x[1].split()) == "result == -1")
    except StopIteration:
        raise ExtractError("cleanUpExecutedProcess: the wait-failure guard is gone")
    if "ProcessResult::makeFailed(exitCode)" not in repr(wst[at][2]) or "('return', '')" not in repr(wst[at][2]):
        raise ExtractError("cleanUpExecutedProcess: a failed wait no longer completes with makeFailed and returns")
    wenv, wstatus = {}, None
    tail_ok = [r"uint64_t [us]time = .*", r"ProcessResult processResult\(processStatus, exitCode, pid, utime, stime, usage\.ru_maxrss\)",
               r"delegate\.processFinished\(ctx, handle, processResult\)", r"completionFn\(processResult\)"]
    for x in wst[at + 1:]:
        if x[0] != "simple":
            raise ExtractError("cleanUpExecutedProcess: unexpected control flow after the wait: %r" % (x,))
        mm = re.fullmatch(r"bool (\w+) = (.*)", x[1])
        if mm:
            wenv[mm.group(1)] = wait_cond(mm.group(2), dict(wenv))
            continue
        mm = re.fullmatch(r"ProcessStatus processStatus = (.*)", x[1])
        if mm:
            if wstatus is not None:
                raise ExtractError("cleanUpExecutedProcess: processStatus defined twice")
            txt = mm.group(1).replace("ProcessStatus::", "ProcessStatus.")
            if "::" in txt:
                raise ExtractError("cleanUpExecutedProcess: cannot translate " + mm.group(1))
            wstatus = wait_ternary(txt, wenv, names)
            continue
        if not any(re.fullmatch(rx, x[1]) for rx in tail_ok):
            raise ExtractError("cleanUpExecutedProcess: cannot translate statement %r" % x[1])
    if wstatus is None or [x[1] for x in wst[-3:]] != ["ProcessResult processResult(processStatus, exitCode, pid, utime, stime, usage.ru_maxrss)",
                                                     "delegate.processFinished(ctx, handle, processResult)", "completionFn(processResult)"]:
        raise ExtractError("cleanUpExecutedProcess: the classified status is no longer what the completion function receives")
    L.append("/-! Wait status of a finished child (`wait4` with options 0: exited or signaled), Linux/glibc encoding of\n"
             "   <bits/waitstatus.h> (platform facts, not repository code). -/")
    L.append("def WTERMSIG (w : Nat) : Nat := w &&& 0x7f")
    L.append("def WEXITSTATUS (w : Nat) : Nat := (w &&& 0xff00) >>> 8")
    L.append("def WSTOPSIG (w : Nat) : Nat := WEXITSTATUS w")
    L.append("def WIFEXITED (w : Nat) : Bool := WTERMSIG w == 0")
    L.append("/-- `((signed char)((w & 0x7f) + 1) >> 1) > 0` -/")
    L.append("def WIFSIGNALED (w : Nat) : Bool := 2 ≤ (w &&& 0x7f) + 1 && (w &&& 0x7f) + 1 < 128")
    L.append("def WIFSTOPPED (w : Nat) : Bool := (w &&& 0xff) == 0x7f")
    L.append("def WCOREDUMP (w : Nat) : Bool := (w &&& 0x80) != 0")
    L.append("/-- `cleanUpExecutedProcess`: the `ProcessStatus` handed to the completion function for wait status `w` -/")
    L.append("def waitProcStatus (w : Nat) : ProcStatus :=\n  %s\n" % wstatus)

    # ---- the "update without running" bookkeeping of ExternalCommand -------------------------------------------------
    ech = strip_comments(read(ECH))
    inits = {}
    for var in ("canUpdateIfNewer", "hasPriorResult"):
        mm = re.findall(r"\bbool\s+%s\s*=\s*(true|false)\s*;" % var, ech)
        if len(mm) != 1:
            raise ExtractError("ExternalCommand.h: member initialiser of %s not found" % var)
        inits[var] = mm[0]
    used.append((ECH, "canUpdateIfNewer = %s; hasPriorResult = %s" % (inits["canUpdateIfNewer"], inits["hasPriorResult"])))
    b_start = function_body(ec, r"void\s+ExternalCommand::start\s*\([^)]*\)")
    b_prior = function_body(ec, r"void\s+ExternalCommand::providePriorValue\s*\([^)]*\)")
    b_cuw = function_body(ec, r"bool\s+ExternalCommand::canUpdateIfNewerWithResult\s*\([^)]*\)")
    used += [(EC, b_start), (EC, b_prior), (EC, b_cuw)]
    start_vals = {"canUpdateIfNewer": "old", "hasPriorResult": "old"}
    seen_start = set()
    for x in parse_stmts(b_start):
        if x[0] == "simple" and x[1] in ("skipValue = llvm::None", "missingInputKeys.clear()", "unsigned id = 0", "startExternalCommand(system, ti)"):
            seen_start.add(x[1])
        elif x[0] == "simple" and re.fullmatch(r"(canUpdateIfNewer|hasPriorResult) = (true|false)", x[1]):
            v, val = x[1].split(" = ")
            start_vals[v] = val
        elif x[0] == "loop" and x[1] == "for" and re.fullmatch(r"\('block', \[\('simple', 'ti\.request\([^']*\)'\)\]\)", repr(x[3])):
            pass
        else:
            raise ExtractError("ExternalCommand::start: cannot translate %r" % (x,))
    if not {"skipValue = llvm::None", "missingInputKeys.clear()"} <= seen_start:
        raise ExtractError("ExternalCommand::start no longer resets skipValue and missingInputKeys (the model's CmdState.init)")
    prior_e = assign_chain(parse_stmts(b_prior), "hasPriorResult", "old", [], pnames)
    input_e = assign_chain([els], "canUpdateIfNewer", "old", [], pnames)
    if re.search(r"canUpdateIfNewer|hasPriorResult", repr(thn)):
        raise ExtractError("provideValue: the skip branch touches the update bookkeeping")
    # every write to the two members is one of those translated above
    for var, n in (("canUpdateIfNewer", len(re.findall(r"canUpdateIfNewer = ", repr(parse_stmts(b_start)) + repr(els)))),
                   ("hasPriorResult", len(re.findall(r"hasPriorResult = ", repr(parse_stmts(b_start)) + repr(parse_stmts(b_prior)))))):
        if len(re.findall(r"\b%s\s*=[^=]" % var, ec)) != n:
            raise ExtractError("ExternalCommand.cpp writes %s somewhere the extractor does not translate" % var)
    for rel in ("lib/BuildSystem/ShellCommand.cpp", "lib/BuildSystem/BuildSystemFrontend.cpp"):
        if re.search(r"\b(canUpdateIfNewer|hasPriorResult)\b", strip_comments(read(rel))):
            raise ExtractError(rel + " now touches the update bookkeeping of ExternalCommand")
    if not re.search(r"class ExternalCommand : public Command \{[^}]*?bool hasPriorResult", " ".join(ech.split())) or \
            re.search(r"(public|protected)\s*:[^}]*\b(canUpdateIfNewer|hasPriorResult)\b\s*=", ech.split("class ExternalCommand")[1].split("bool canUpdateIfNewerWithResult")[0]):
        raise ExtractError("ExternalCommand.h: canUpdateIfNewer / hasPriorResult are no longer private members")
    st = parse_stmts(b_exec)
    if not (st[1] == ("assert", "missingInputKeys.empty()") and st[2][0] == "if" and st[2][3] is None and st[2][2] == ("block", [
            ("simple", "BuildValue result = computeCommandResult(system, ti)"),
            ("if", "canUpdateIfNewerWithResult(result)", ("block", [("simple", "resultFn(std::move(result))"), ("return", "")]), None)])):
        raise ExtractError("execute: the update-without-running block is no longer the statement after the skip block: %r" % (st[1:3],))
    guard_e = Cond(st[2][1], [(r"canUpdateIfNewer\b", "canUpdate"), (r"hasPriorResult\b", "hasPrior")], pnames).parse()
    if "commandStarted" in repr(st[:3]):
        raise ExtractError("execute: commandStarted precedes the update block")
    cst = parse_stmts(b_cuw)
    flat = []
    for x in cst:
        if x[0] == "loop":
            if not (x[1] == "for" and " ".join(x[2].split()) == "unsigned i = 0, e = result.getNumOutputs(); i != e; ++i" and x[3][0] == "block"
                    and len(x[3][1]) == 2 and x[3][1][0] == ("simple", "const FileInfo& outputInfo = result.getNthOutputInfo(i)")
                    and x[3][1][1][0] == "if" and x[3][1][1][3] is None):
                raise ExtractError("canUpdateIfNewerWithResult: unexpected loop %r" % (x,))
            flat.append(x[3][1][1])      # "for some output": the guarded return fires iff it fires for some i
        else:
            flat.append(x)
    ch = Chain(pnames, [(r"allowModifiedOutputs\b", "allowModifiedOutputs"), (r"outputInfo\.isMissing\(\)", "anyOutputMissing")],
               lambda e: {"false": "false", "true": "true"}.get(e) or (_ for _ in ()).throw(ExtractError("return " + e)), [])
    cuw_e = ch.seq(flat, None)
    L.append("/-! The \"update without running\" bookkeeping of `ExternalCommand` (private members `canUpdateIfNewer`, `hasPriorResult`). -/")
    L.append("def canUpdateIfNewerInit : Bool := %s" % inits["canUpdateIfNewer"])
    L.append("def hasPriorResultInit : Bool := %s" % inits["hasPriorResult"])
    L.append("/-- `start`: resets `skipValue` and `missingInputKeys` (checked by the extractor); the two flags after it, given their values before -/")
    L.append("def startCanUpdate (old : Bool) : Bool := %s" % start_vals["canUpdateIfNewer"])
    L.append("def startHasPrior (old : Bool) : Bool := %s" % start_vals["hasPriorResult"])
    L.append("/-- `providePriorValue(value)`: `hasPriorResult` afterwards -/")
    L.append("def priorHasPrior (k : Kind) (old : Bool) : Bool := %s" % prior_e)
    L.append("/-- `provideValue`, branch without a skip value: `canUpdateIfNewer` afterwards -/")
    L.append("def inputCanUpdate (k : Kind) (old : Bool) : Bool := %s" % input_e)
    L.append("/-- `execute`, after the skip block: the guard of the block that completes with `computeCommandResult` WITHOUT starting the command -/")
    L.append("def updateGuard (canUpdate hasPrior : Bool) : Bool := %s" % guard_e)
    L.append("/-- `canUpdateIfNewerWithResult(result)`: anyOutputMissing = some output info of the freshly computed result `isMissing()` -/")
    L.append("def canUpdateWithResult (allowModifiedOutputs anyOutputMissing : Bool) : Bool :=\n  %s\n" % cuw_e)

    L.append("end LLBuild.Generated.FailTables")
    return write_generated("FailTables", "\n".join(L), used)


if __name__ == "__main__":
    print(run())
