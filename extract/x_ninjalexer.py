"""X5: lib/Ninja/Lexer.cpp + include/llbuild/Ninja/Lexer.h -> Generated/NinjaLexerTables.lean

Extracted (fail closed on any shape this file does not understand):
  * `Token::Kind` enumerators, in order                                        (Lexer.h)
  * the keyword table of `Lexer::setIdentifierTokenKind` as
    (switch length, literal, memcmp length, token kind), in source order       (Lexer.cpp)
  * `isIdentifierChar` / `isSimpleIdentifierChar` as inclusive byte ranges     (Lexer.h)
  * return type of `peekNextChar` / `getNextChar` and the type of the value that is
    widened to it (clang-14 JSON AST: the operand of the implicit IntegralCast), plus the
    signedness of plain `char` on the build target  => "sign-extends" facts    (Lexer.cpp)
  * the two bounds guards of the `$`-newline look-ahead in `Lexer::lex`        (Lexer.cpp)
  * the shape of `isNonNewlineSpace` (isspace minus '\\n' '\\r')                 (Lexer.cpp)
"""
import json, re, subprocess
from xcommon import *

CPP = "lib/Ninja/Lexer.cpp"
HDR = "include/llbuild/Ninja/Lexer.h"


def char_lit(tok):
    """value of a C character literal token like 'a' or '\\n' (must be 7-bit)"""
    m = re.fullmatch(r"'((?:[^'\\]|\\.)+)'", tok.strip())
    if not m:
        raise ExtractError("not a character literal: " + tok)
    bs = c_string_bytes(m.group(1))
    if len(bs) != 1 or bs[0] >= 128:
        raise ExtractError("character literal outside 7-bit ASCII: " + tok)
    return bs[0]


def kinds(hdr):
    m = re.search(r"struct\s+Token\s*\{\s*enum\s+class\s+Kind\s*\{(.*?)\}\s*;", hdr, re.S)
    if not m:
        raise ExtractError("Token::Kind enum not found")
    names = []
    for item in m.group(1).split(","):
        item = item.strip()
        if not item:
            continue
        if "=" in item:
            nm, _, val = item.partition("=")
            nm, val = nm.strip(), val.strip()
            if nm not in ("KWKindFirst", "KWKindLast") or not re.fullmatch(r"\w+", val):
                raise ExtractError("unexpected enumerator with value: " + item)
            continue
        if not re.fullmatch(r"[A-Za-z_]\w*", item):
            raise ExtractError("unexpected enumerator: " + item)
        names.append(item)
    if len(names) < 5 or len(set(names)) != len(names):
        raise ExtractError("suspicious Token::Kind list")
    return names, m.group(0)


def keyword_table(src, kind_names):
    body = function_body(src, r"Token\s*&\s*Lexer::setIdentifierTokenKind\s*\(\s*Token\s*&\s*result\s*\)\s*const")
    if not re.search(r"unsigned\s+length\s*=\s*bufferPos\s*-\s*result\.start\s*;", body):
        raise ExtractError("setIdentifierTokenKind: length computation changed")
    m = re.search(r"switch\s*\(\s*length\s*\)\s*\{", body)
    if not m:
        raise ExtractError("setIdentifierTokenKind: no switch(length)")
    sw, end = find_block(body, m.end() - 1)
    tail = body[end:].strip()
    mt = re.fullmatch(r"return\s+setTokenKind\s*\(\s*result\s*,\s*Token::Kind::(\w+)\s*\)\s*;", tail)
    if not mt:
        raise ExtractError("setIdentifierTokenKind: unexpected tail: " + tail[:80])
    fallback = mt.group(1)
    table = []
    pos = 0
    cur = None
    tok = re.compile(
        r"\s*(?:(case)\s+(\d+)\s*:"
        r"|(if)\s*\(\s*memcmp\s*\(\s*\"((?:[^\"\\]|\\.)*)\"\s*,\s*result\.start\s*,\s*(\d+)\s*\)\s*==\s*0\s*\)\s*"
        r"return\s+setTokenKind\s*\(\s*result\s*,\s*Token::Kind::(\w+)\s*\)\s*;"
        r"|(break)\s*;)")
    while pos < len(sw):
        if not sw[pos:].strip():
            break
        mm = tok.match(sw, pos)
        if not mm:
            raise ExtractError("setIdentifierTokenKind: unparsed switch text: " + sw[pos:pos + 80].strip())
        if mm.group(1):
            if cur is not None:
                raise ExtractError("setIdentifierTokenKind: case fall-through")
            cur = int(mm.group(2))
        elif mm.group(3):
            if cur is None:
                raise ExtractError("setIdentifierTokenKind: memcmp outside a case")
            if mm.group(6) not in kind_names:
                raise ExtractError("unknown token kind " + mm.group(6))
            table.append((cur, c_string_bytes(mm.group(4)), int(mm.group(5)), mm.group(6)))
        else:
            if cur is None:
                raise ExtractError("setIdentifierTokenKind: break outside a case")
            cur = None
        pos = mm.end()
    if cur is not None:
        raise ExtractError("setIdentifierTokenKind: last case does not break")
    if not table:
        raise ExtractError("setIdentifierTokenKind: empty keyword table")
    if fallback not in kind_names:
        raise ExtractError("unknown fallback kind " + fallback)
    return table, fallback, body


def char_class(hdr, name):
    body = function_body(hdr, r"static\s+bool\s+" + name + r"\s*\(\s*char\s+c\s*\)")
    m = re.fullmatch(r"\s*return\s+(.*?);\s*", body, re.S)
    if not m:
        raise ExtractError(name + ": not a single return")
    ranges = []
    for term in m.group(1).split("||"):
        term = term.strip()
        r1 = re.fullmatch(r"\(\s*c\s*>=\s*('(?:[^'\\]|\\.)+')\s*&&\s*c\s*<=\s*('(?:[^'\\]|\\.)+')\s*\)", term)
        r2 = re.fullmatch(r"c\s*==\s*('(?:[^'\\]|\\.)+')", term)
        if r1:
            lo, hi = char_lit(r1.group(1)), char_lit(r1.group(2))
            if lo > hi:
                raise ExtractError(name + ": empty range")
            ranges.append((lo, hi))
        elif r2:
            v = char_lit(r2.group(1))
            ranges.append((v, v))
        else:
            raise ExtractError(name + ": unexpected term: " + term)
    return ranges, body


# ---- clang JSON AST: what is widened to the `int` that peekNextChar / getNextChar return ---------
def ast_objects(fn):
    cmd = ["clang++-14", "-std=gnu++17", "-fsyntax-only", "-fno-rtti", "-I" + os.path.join(REPO, "include"),
           "-include", os.path.join(REPO, "include/libstdc++14-workaround.h"),
           "-Xclang", "-ast-dump=json", "-Xclang", "-ast-dump-filter=" + fn, os.path.join(REPO, CPP)]
    p = subprocess.run(cmd, stdout=subprocess.PIPE, stderr=subprocess.PIPE, text=True)
    if p.returncode != 0:
        raise ExtractError("clang AST dump failed: " + p.stderr[-300:])
    dec = json.JSONDecoder()
    txt, i, objs = p.stdout, 0, []
    while i < len(txt):
        while i < len(txt) and txt[i].isspace():
            i += 1
        if i >= len(txt):
            break
        o, i = dec.raw_decode(txt, i)
        objs.append(o)
    return objs


def returns(node, out):
    if node.get("kind") == "ReturnStmt":
        out.append(node)
    for c in node.get("inner", []):
        returns(c, out)


def widened_type(fn):
    """(return type, type of the value that is converted to it) for the non-sentinel return of Lexer::<fn>"""
    defs = [o for o in ast_objects(fn) if o.get("kind") == "CXXMethodDecl" and o.get("name") == fn
            and any(c.get("kind") == "CompoundStmt" for c in o.get("inner", []))]
    if len(defs) != 1:
        raise ExtractError("%s: expected one definition, found %d" % (fn, len(defs)))
    d = defs[0]
    rty = d["type"]["qualType"].split("(")[0].strip()
    rets = []
    returns(d, rets)
    vals = []
    for r in rets:
        e = r["inner"][0]
        if e.get("kind") == "UnaryOperator" and e.get("opcode") == "-" and e["inner"][0].get("kind") == "IntegerLiteral" \
                and e["inner"][0].get("value") == "1":
            continue  # `return -1;` the end-of-input sentinel
        vals.append(e)
    if len(vals) != 1 or len(rets) != len(vals) + 1 and fn == "peekNextChar":
        raise ExtractError("%s: unexpected return statements" % fn)
    e = vals[0]
    if e.get("kind") == "ImplicitCastExpr" and e.get("castKind") == "IntegralCast" and e["type"]["qualType"] == rty:
        src = e["inner"][0]
        # explicit casts (C-style, static_cast, functional) and lvalue loads carry the source type directly
        ty = src["type"].get("desugaredQualType", src["type"]["qualType"])
    else:
        ty = e["type"].get("desugaredQualType", e["type"]["qualType"])
    ty = ty.replace("const ", "").strip()
    if ty not in ("char", "unsigned char", "signed char", "int", "uint8_t"):
        raise ExtractError("%s: value of unexpected type %r is returned" % (fn, ty))
    return rty, ty


def char_is_signed():
    p = subprocess.run(["clang++-14", "-dM", "-E", "-x", "c++", "/dev/null"], stdout=subprocess.PIPE, text=True)
    if p.returncode != 0 or "__CHAR_BIT__ 8" not in p.stdout:
        raise ExtractError("cannot determine target char properties")
    return "__CHAR_UNSIGNED__" not in p.stdout


def guard(expr):
    expr = expr.strip()
    m = re.fullmatch(r"bufferPos\s*\+\s*(\d+)\s*!=\s*buffer\.end\s*\(\s*\)", expr)
    if m:
        return ".ptrNe %s" % m.group(1)
    m = re.fullmatch(r"buffer\.end\s*\(\s*\)\s*-\s*bufferPos\s*>\s*(\d+)", expr)
    if m:
        return ".distGt %s" % m.group(1)
    m = re.fullmatch(r"bufferPos\s*\+\s*(\d+)\s*<\s*buffer\.end\s*\(\s*\)", expr)
    if m:
        return ".distGt %s" % m.group(1)
    raise ExtractError("`$` look-ahead guard of unknown form: " + expr)


def dollar_guards(src):
    body = function_body(src, r"Token\s*&\s*Lexer::lex\s*\(\s*Token\s*&\s*result\s*\)")
    m = re.search(r"if\s*\(\s*\(\s*([^&|]+?)&&\s*bufferPos\[1\]\s*==\s*'\\n'\s*\)\s*\|\|\s*"
                  r"\(\s*([^&|]+?)&&\s*bufferPos\[1\]\s*==\s*'\\r'\s*&&\s*bufferPos\[2\]\s*==\s*'\\n'\s*\)\s*\)", body, re.S)
    if not m:
        raise ExtractError("Lexer::lex: `$`-newline look-ahead of unknown shape")
    if len(re.findall(r"bufferPos\s*\[", body)) != 3:
        raise ExtractError("Lexer::lex: additional direct bufferPos[] reads")
    return guard(m.group(1)), guard(m.group(2)), m.group(0)


def non_newline_space(src):
    body = function_body(src, r"static\s+bool\s+isNonNewlineSpace\s*\(\s*int\s+c\s*\)")
    if not re.fullmatch(r"\s*return\s+isspace\s*\(\s*c\s*\)\s*&&\s*c\s*!=\s*'\\n'\s*&&\s*c\s*!=\s*'\\r'\s*;\s*", body):
        raise ExtractError("isNonNewlineSpace: unexpected body")
    return body


def lean_ranges(rs):
    return "[" + ", ".join("(%d, %d)" % r for r in rs) + "]"


def run():
    src = strip_comments(read(CPP))
    hdr = strip_comments(read(HDR))
    names, enum_text = kinds(hdr)
    table, fallback, kw_text = keyword_table(src, names)
    ident, ident_text = char_class(hdr, "isIdentifierChar")
    simple, simple_text = char_class(hdr, "isSimpleIdentifierChar")
    signed = char_is_signed()
    prt, pty = widened_type("peekNextChar")
    grt, gty = widened_type("getNextChar")
    if prt != "int" or grt != "int":
        raise ExtractError("peekNextChar/getNextChar no longer return int (%s, %s)" % (prt, grt))

    def sext(ty):
        return ty == "signed char" or (ty == "char" and signed)
    g1, g2, guard_text = dollar_guards(src)
    nns_text = non_newline_space(src)

    L = ["namespace LLBuild.Generated.NinjaLexer", "",
         "/-- `Token::Kind` of include/llbuild/Ninja/Lexer.h, in declaration order -/",
         "inductive Kind where"]
    L += ["  | %s" % n for n in names]
    L += ["  deriving DecidableEq, Repr, Inhabited", "",
          "def Kind.name : Kind → _root_.String"]
    L += ["  | .%s => \"%s\"" % (n, n) for n in names]
    L += ["", "/-- one `if (memcmp(literal, result.start, memcmpLen) == 0) return kind;` under `case switchLen:` -/",
          "structure KwEntry where", "  switchLen : Nat", "  literal : List UInt8", "  memcmpLen : Nat", "  kind : Kind",
          "  deriving DecidableEq, Repr", "",
          "/-- keyword table of `Lexer::setIdentifierTokenKind`, in source order -/",
          "def keywordTable : List KwEntry := ["]
    L += ["  ⟨%d, %s, %d, .%s⟩%s  -- \"%s\"" % (sl, lean_bytes(lit), ml, k, "," if i + 1 < len(table) else "",
                                               bytes(lit).decode("latin-1"))
          for i, (sl, lit, ml, k) in enumerate(table)]
    L += ["]", "", "/-- kind returned when no keyword matches -/", "def fallbackKind : Kind := .%s" % fallback, "",
          "/-- `Lexer::isIdentifierChar` as inclusive byte ranges -/",
          "def identifierCharRanges : List (UInt8 × UInt8) := " + lean_ranges(ident), "",
          "/-- `Lexer::isSimpleIdentifierChar` as inclusive byte ranges -/",
          "def simpleIdentifierCharRanges : List (UInt8 × UInt8) := " + lean_ranges(simple), "",
          "/-- plain `char` is a signed type on the build target -/",
          "def charIsSigned : Bool := %s" % ("true" if signed else "false"), "",
          "/-- declared return types of `Lexer::peekNextChar()` / `Lexer::getNextChar()` -/",
          "def peekReturnType : String := %s" % lean_str(prt),
          "def getReturnType : String := %s" % lean_str(grt), "",
          "/-- `int Lexer::peekNextChar()` returns a value of this type converted to `int` -/",
          "def peekWidenedType : String := %s" % lean_str(pty),
          "def peekSignExtends : Bool := %s" % ("true" if sext(pty) else "false"), "",
          "/-- `int Lexer::getNextChar()` returns a value of this type converted to `int` -/",
          "def getWidenedType : String := %s" % lean_str(gty),
          "def getSignExtends : Bool := %s" % ("true" if sext(gty) else "false"), "",
          "/-- bounds guard in front of a direct `bufferPos[k]` read:",
          "    `ptrNe k` is `bufferPos + k != buffer.end()`, `distGt k` is `buffer.end() - bufferPos > k` -/",
          "inductive Guard where", "  | ptrNe (k : Nat)", "  | distGt (k : Nat)", "  deriving DecidableEq, Repr", "",
          "/-- guard of `bufferPos[1] == '\\n'` in the `$`-newline look-ahead of `Lexer::lex` -/",
          "def dollarGuardLF : Guard := %s" % g1,
          "/-- guard of `bufferPos[1] == '\\r' && bufferPos[2] == '\\n'` -/",
          "def dollarGuardCRLF : Guard := %s" % g2, "",
          "end LLBuild.Generated.NinjaLexer"]
    return write_generated("NinjaLexerTables", "\n".join(L) + "\n",
                           [(HDR, enum_text + ident_text + simple_text), (CPP, kw_text + guard_text + nns_text)])


if __name__ == "__main__":
    print(run())
