"""X12: lib/Basic/Subprocess.cpp (+ include/llbuild/Basic/Subprocess.h, <signal.h>, <sys/wait.h>) -> Generated/ProcStatus.lean

  * the status-classification expression of cleanUpExecutedProcess (POSIX branch): which signals count as
    cancellation, the success test, the three statuses of the ternary; wait4 options
  * numeric values of the signals named there and in cancelAllJobs/killAfterTimeout (from the platform's <signal.h>)
  * the C library's W* macros are checked against the arithmetic the model uses, on every 16-bit status
  * structural fingerprint (token sequence) of spawnProcess and cleanUpExecutedProcess as preprocessed for this
    platform: every completion / delegate call / return / break / lock / spawn / poll / wait in source order
  * how a poll() failure leaves the drain loop (return = abort without completion, or break = reap and complete)
  * ProcessGroup: close / isClosed / add / remove / signalAll shapes
"""
import os, re, subprocess, tempfile
from xcommon import *

CC = "/usr/bin/clang-14"
CXX = "/usr/bin/clang++-14"


def norm(s):
    return re.sub(r"\s+", " ", s).strip()


def need(m, what):
    if not m:
        raise ExtractError("shape not recognised: " + what)
    return m


def signal_numbers(names):
    p = subprocess.run([CC, "-E", "-dM", "-x", "c", "-"], input="#include <signal.h>\n", capture_output=True, text=True)
    if p.returncode != 0:
        raise ExtractError("cannot preprocess <signal.h>")
    out = {}
    for n in names:
        m = re.search(r"^#define %s (\d+)$" % n, p.stdout, re.M)
        if not m:
            raise ExtractError("no numeric value for " + n)
        out[n] = int(m.group(1))
    return out


def check_wait_macros():
    """The model computes WIFSIGNALED(s) as s%128 not in {0,127}, WTERMSIG(s) as s%128, WIFEXITED(s) as s%128==0,
    WEXITSTATUS(s) as s/256%256: compare with the C library on all 16-bit statuses."""
    prog = r"""
#include <sys/wait.h>
#include <stdio.h>
int main(void){ for (int s = 0; s < 65536; s++) {
  int sig = WIFSIGNALED(s) ? 1 : 0, ts = WTERMSIG(s), ex = WIFEXITED(s) ? 1 : 0, es = WEXITSTATUS(s);
  int m = s % 128;
  if (sig != (m != 0 && m != 127) || ts != m || ex != (m == 0) || es != (s / 256) % 256) { printf("bad %d\n", s); return 1; } }
  printf("ok\n"); return 0; }
"""
    d = tempfile.mkdtemp(prefix="x16-")
    try:
        src = os.path.join(d, "w.c")
        with open(src, "w") as f:
            f.write(prog)
        exe = os.path.join(d, "w")
        if subprocess.run([CC, "-O1", src, "-o", exe], capture_output=True).returncode != 0:
            raise ExtractError("cannot compile the wait-macro probe")
        r = subprocess.run([exe], capture_output=True, text=True)
        if r.returncode != 0 or r.stdout.strip() != "ok":
            raise ExtractError("the C library's wait-status macros differ from the model's arithmetic: " + r.stdout[:80])
    finally:
        import shutil
        shutil.rmtree(d, ignore_errors=True)


TOKENS = [
    (r"std::move\(completionFn\)", "moveCompletion"),
    (r"\bcompletionFn\(", "completion"),
    (r"delegate\.processStarted\(", "started"),
    (r"delegate\.processFinished\(", "finished"),
    (r"delegate\.processHadError\(", "error"),
    (r"delegate\.processHadOutput\(", "output"),
    (r"std::lock_guard<std::mutex> guard\(pgrp\.mutex\)", "lockGroup"),
    (r"pgrp\.isClosed\(\)", "isClosed"),
    (r"pgrp\.add\(", "groupAdd"),
    (r"pgrp\.remove\(", "groupRemove"),
    (r"\bposix_spawn\(", "spawn"),
    (r"\bpoll\(", "poll"),
    (r"\bwait4\(", "wait"),
    (r"\breleaseFn\(", "release"),
    (r"\bcleanUpExecutedProcess\(", "cleanup"),
    (r"\bcaptureExecutedProcessOutput\(", "capture"),
    (r"\bshouldRelease\(\)", "shouldRelease"),
    (r"\breturn\b", "ret"),
    (r"\bbreak;", "brk"),
    (r"\bcontinue;", "cont"),
    (r"\bwhile \(", "loop"),
    (r"\bdo \{", "doBlock"),
]


def fingerprint(body):
    hits = []
    for rx, name in TOKENS:
        for m in re.finditer(rx, body):
            hits.append((m.start(), name))
    hits.sort()
    # `std::move(completionFn)` also matches nothing else; `completionFn(` inside the lambda capture list is not a call
    return [n for _, n in hits]


def run():
    rel = "lib/Basic/Subprocess.cpp"
    raw = read(rel)
    src = strip_comments(raw)
    # ---- classification (source text, POSIX branch) ---------------------------------------
    m = need(re.search(r"bool cancelled = (WIFSIGNALED\(exitCode\) && )?\(([^;]*)\);\s*"
                       r"ProcessStatus processStatus = cancelled \? ProcessStatus::(\w+) : \(exitCode == (\d+)\) \? ProcessStatus::(\w+) : ProcessStatus::(\w+);",
                       src), "status classification expression")
    requires_signaled = m.group(1) is not None
    sigs = []
    for d in m.group(2).split("||"):
        mm = need(re.fullmatch(r"WTERMSIG\(exitCode\) == (SIG[A-Z0-9]+)", norm(d)), "cancellation disjunct %r" % norm(d))
        sigs.append(mm.group(1))
    st_cancel, success_raw, st_ok, st_else = m.group(3), int(m.group(4)), m.group(5), m.group(6)
    need(re.search(r"int exitCode, result = wait4\(pid, &exitCode, 0, &usage\); while \(result == -1 && errno == EINTR\) result = wait4\(pid, &exitCode, 0, &usage\);",
                   norm(src)), "wait4(pid, &exitCode, 0, &usage) with EINTR retry")
    # signals used for cancellation / escalation by the queues
    qsrc = norm(strip_comments(read("lib/Basic/LaneBasedExecutionQueue.cpp")))
    csig = need(re.search(r"\} spawnedProcesses\.signalAll\((SIG[A-Z]+)\); \{ std::lock_guard<std::mutex> guard\(killAfterTimeoutThreadMutex\);", qsrc),
                "cancelAllJobs signal").group(1)
    ksig = need(re.search(r"#else spawnedProcesses\.signalAll\((SIG[A-Z]+)\); #endif", qsrc), "killAfterTimeout signal").group(1)
    nums = signal_numbers(sorted(set(sigs + [csig, ksig])))
    check_wait_macros()
    hdr = "include/llbuild/Basic/Subprocess.h"
    h = norm(strip_comments(read(hdr)))
    en = need(re.search(r"enum class ProcessStatus \{ ([^}]*) \};", h), "enum ProcessStatus").group(1)
    enum_names = [norm(x).split(" ")[0] for x in en.split(",") if norm(x)]
    for s in (st_cancel, st_ok, st_else):
        if s not in ("Succeeded", "Failed", "Cancelled"):
            raise ExtractError("classification yields an unexpected status " + s)
        if s not in enum_names:
            raise ExtractError("status %s is not a ProcessStatus enumerator" % s)
    need(re.search(r"static ProcessResult makeFailed\(int exitCode = -1\) \{ return ProcessResult\(ProcessStatus::Failed, exitCode\); \}", h), "makeFailed")
    need(re.search(r"static ProcessResult makeCancelled\(int exitCode = -1\) \{ return ProcessResult\(ProcessStatus::Cancelled, exitCode\); \}", h), "makeCancelled")
    # ProcessGroup
    need(re.search(r"void close\(\) \{ closed = true; \} bool isClosed\(\) const \{ return closed; \}", h), "ProcessGroup::close/isClosed")
    need(re.search(r"void add\(std::lock_guard<std::mutex>&& lock, llbuild_pid_t pid, ProcessInfo info\) \{ processes\.emplace\(std::make_pair\(pid, info\)\); \}", h),
         "ProcessGroup::add")
    need(re.search(r"void remove\(llbuild_pid_t pid\) \{ \{ std::lock_guard<std::mutex> lock\(mutex\); processes\.erase\(pid\); \} processesCondition\.notify_all\(\); \}", h),
         "ProcessGroup::remove")
    sa = norm(function_body(src, r"void\s+ProcessGroup::signalAll\s*\(\s*int\s+signal\s*\)"))
    need(re.match(r"std::lock_guard<std::mutex> lock\(mutex\); for \(const auto& it: processes\) \{ "
                  r"if \(signal == SIGINT && !it\.second\.canSafelyInterrupt\) continue; "
                  r"#if defined\(_WIN32\) TerminateProcess\(it\.first, signal\); #else ::kill\(-it\.first, signal\); #endif \}$", sa),
         "ProcessGroup::signalAll")
    # ---- fingerprints on the preprocessed translation unit --------------------------------
    p = subprocess.run([CXX, "-std=gnu++14", "-E", "-P", "-DNDEBUG", "-I" + os.path.join(REPO, "include"),
                        os.path.join(REPO, rel)], capture_output=True, text=True)
    if p.returncode != 0:
        raise ExtractError("cannot preprocess Subprocess.cpp: " + p.stderr[-300:])
    pp = p.stdout
    sp = norm(function_body(pp, r"void\s+llbuild::basic::spawnProcess\s*\([^{;]*?ProcessCompletionFn&&\s+completionFn\s*\)"))
    cu = norm(function_body(pp, r"static\s+void\s+cleanUpExecutedProcess\s*\([^{;]*?ManagedDescriptor&\s+releaseFd\s*\)"))
    fp_spawn, fp_clean = fingerprint(sp), fingerprint(cu)
    # the poll failure exit
    pm = need(re.search(r"while \(poll\(readfds, nfds, -1\) == -1\) \{ int err = (?:errno|\(\*__errno_location \(\)\)); "
                        r"if \(err == 11 \|\| err == 4\) \{ continue; \} else \{ delegate\.processHadError\([^;]*\); (?P<exit>[^}]*)\} \}"
                        r"(?P<after>.{0,40})", sp), "poll failure handling")
    ex, after = norm(pm.group("exit")), norm(pm.group("after"))
    if ex == "return;":
        poll_aborts = True
    elif ex == "pollFailed = true; break;" and after.startswith("if (pollFailed) break;"):
        poll_aborts = False
    else:
        raise ExtractError("poll failure exit not recognised: %r / %r" % (ex, after))

    def toks(l):
        return "[" + ", ".join("." + t for t in l) + "]"
    lean = """namespace LLBuild.Generated.ProcStatus

inductive Status
  | succeeded | failed | cancelled
  deriving DecidableEq, Repr

inductive Tok
  | %s
  deriving DecidableEq, Repr

/-- signals whose WTERMSIG makes `cancelled` true (%s), numeric values from <signal.h> -/
def cancelSignals : List Nat := [%s]
/-- the `WIFSIGNALED(exitCode) &&` conjunct is present -/
def cancelRequiresSignaled : Bool := %s
/-- `cancelled ? X : (exitCode == N) ? Y : Z` -/
def statusIfCancelled : Status := .%s
def successRawStatus : Nat := %d
def statusIfSuccessTest : Status := .%s
def statusOtherwise : Status := .%s
/-- cancelAllJobs sends %s, killAfterTimeout sends %s -/
def interruptSignal : Nat := %d
def killSignal : Nat := %d
/-- a poll() failure `return`s from spawnProcess (no completion) instead of leaving the drain loop -/
def pollFailureAborts : Bool := %s
def spawnShape : List Tok := %s
def cleanupShape : List Tok := %s

end LLBuild.Generated.ProcStatus
""" % (" | ".join(sorted(set(n for _, n in TOKENS))), ", ".join(sigs), ", ".join(str(nums[s]) for s in sigs),
       "true" if requires_signaled else "false", st_cancel.lower(), success_raw, st_ok.lower(), st_else.lower(),
       csig, ksig, nums[csig], nums[ksig], "true" if poll_aborts else "false", toks(fp_spawn), toks(fp_clean))
    return write_generated("ProcStatus", lean, [(rel, sp + cu + sa), (hdr, h)])


if __name__ == "__main__":
    print(run())
