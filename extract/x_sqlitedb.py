"""X10: lib/Core/SQLiteBuildDB.cpp (+ the merged version in BuildSystem.cpp, the recreate flags of the two
openers) -> Generated/SQLiteDB.lean

Extracted (fail closed on any unexpected shape):
  * currentSchemaVersion
  * the CREATE TABLE strings: table -> [(column, declared type, constraints)]
  * SQL text of every prepared statement, of the inline statements, of the transaction brackets, PRAGMAs
  * select lists of the three result queries, the bind list of the rule_results INSERT, the column reads
    of the three readers mapped to Result fields, the bind kind of every key parameter
  * shift / mask constants of the dependency encoder and of both decoders, entry width
  * busy timeout, version-gate condition, the info row written at creation
  * BuildSystem merged version (internal + (client << shift), result width), recreate flags of the callers
  * the TRANSACTION SHAPE of the whole file: every transaction-control / journalling statement (BEGIN, END, COMMIT,
    ROLLBACK, SAVEPOINT, RELEASE, PRAGMA, ATTACH, DETACH, VACUUM) found in any string literal, grouped by the member
    function that contains it; every sqlite3_exec / sqlite3_prepare* call whose SQL argument is not a literal; the
    set of sqlite3_* API functions called anywhere in the file (C04_one_transaction_per_build compares all three
    with what the model assumes: one BEGIN EXCLUSIVE .. END per build, nothing else anywhere)
"""
import re
from xcommon import *

REL = "lib/Core/SQLiteBuildDB.cpp"
REL_BS = "lib/BuildSystem/BuildSystem.cpp"
REL_CAPI = "products/libllbuild/BuildDB-C-API.cpp"

SQL_HEAD = ("SELECT", "INSERT", "UPDATE", "DELETE", "CREATE", "BEGIN", "END", "PRAGMA", "COMMIT", "ROLLBACK", "DROP", "ALTER")
CONSTRAINT_WORDS = {"PRIMARY", "UNIQUE", "NOT", "NULL", "DEFAULT", "REFERENCES", "CHECK", "COLLATE", "CONSTRAINT", "GENERATED", "AS"}
TABLE_CONSTRAINT_HEADS = {"FOREIGN", "PRIMARY", "UNIQUE", "CHECK", "CONSTRAINT"}


def merged_literals(src):
    """[(index, text)] of string literals with adjacent literals concatenated (C translation phase 6)."""
    out = []
    i, n = 0, len(src)
    cur, cur_at, last_end = None, None, None
    while i < n:
        c = src[i]
        if c == "'":
            j = i + 1
            while j < n and src[j] != "'":
                if src[j] == "\\":
                    j += 1
                j += 1
            i = j + 1
        elif c == '"':
            j = i + 1
            while j < n and src[j] != '"':
                if src[j] == "\\":
                    j += 1
                j += 1
            text = bytes(c_string_bytes(src[i + 1:j])).decode("utf-8", "surrogateescape")
            if cur is not None and src[last_end:i].strip() == "":
                cur += text
            else:
                if cur is not None:
                    out.append((cur_at, cur))
                cur, cur_at = text, i
            last_end = j + 1
            i = j + 1
        else:
            i += 1
    if cur is not None:
        out.append((cur_at, cur))
    return out


def sql_literals(body):
    return [t for _, t in merged_literals(body) if t.lstrip().upper().startswith(SQL_HEAD)]


def parse_create_table(sql):
    m = re.match(r"\s*CREATE TABLE (\w+) \((.*)\);\s*$", sql, re.S)
    if not m:
        raise ExtractError("CREATE TABLE: unexpected shape: " + sql)
    name, inner = m.group(1), m.group(2)
    parts, depth, cur = [], 0, ""
    for ch in inner:
        if ch == "(":
            depth += 1
        elif ch == ")":
            depth -= 1
        if ch == "," and depth == 0:
            parts.append(cur.strip())
            cur = ""
        else:
            cur += ch
    parts.append(cur.strip())
    cols, tcons = [], []
    for p in parts:
        toks = p.split()
        if not toks:
            raise ExtractError("CREATE TABLE %s: empty column definition" % name)
        if toks[0].upper() in TABLE_CONSTRAINT_HEADS:
            tcons.append(p)
            continue
        k = 1
        while k < len(toks) and toks[k].upper() not in CONSTRAINT_WORDS:
            k += 1
        cols.append((toks[0], " ".join(toks[1:k]), " ".join(toks[k:])))
    return name, cols, tcons


def select_list(sql):
    m = re.match(r"\s*SELECT (.*?) FROM ", sql, re.S)
    if not m:
        raise ExtractError("SELECT list: unexpected shape: " + sql)
    return [c.strip().split(".")[-1] for c in m.group(1).split(",")]


BIND_EXPR = {
    "dbKeyID.value": "key_id", "ruleResult.value.data()": "value", "ruleResult.signature.value": "signature",
    "ruleResult.builtAt": "built_at", "ruleResult.computedAt": "computed_at", "ruleResult.start": "start",
    "ruleResult.end": "end", "encoder.data()": "dependencies",
}

READ_TARGETS = [  # (regex on the statement text before the call, Result field)
    (r"\bdbKeyID\s*=\s*DBKeyID\($|\bauto\s+dbKeyID\s*=\s*DBKeyID\($", "key_id"),
    (r"\bint\s+numValueBytes\s*=\s*$", "value"),
    (r"memcpy\(\s*\w+(?:->|\.)value\.data\(\)\s*,\s*$", "value"),
    (r"(?:->|\.)builtAt\s*=\s*$", "built_at"),
    (r"(?:->|\.)computedAt\s*=\s*$", "computed_at"),
    (r"(?:->|\.)start\s*=\s*$", "start"),
    (r"(?:->|\.)end\s*=\s*$", "end"),
    (r"\bnumDependencyBytes\s*=\s*$", "dependencies"),
    (r"\bdependencyBytes\s*=\s*$", "dependencies"),
    (r"(?:->|\.)signature\s*=\s*basic::CommandSignature\($", "signature"),
    (r"\bauto\s+key\s*=\s*KeyType\(\(const char \*\)$", "key"),
    (r"\bauto\s+key\s*=\s*KeyType\(\(const char \*\)sqlite3_column_text\(stmt, 1\),\s*$", "key"),
]


def column_reads(body, stmt):
    """[(column index, accessor, field)] for sqlite3_column_*(stmt, n) calls in body."""
    out = []
    for m in re.finditer(r"sqlite3_column_(\w+)\(\s*%s\s*,\s*(\d+)\s*\)" % re.escape(stmt), body):
        if m.group(1) == "count":
            continue
        k = max(body.rfind(";", 0, m.start()), body.rfind("{", 0, m.start()), body.rfind("}", 0, m.start()))
        before = re.sub(r"\s+", " ", body[k + 1:m.start()]).strip()
        field = None
        for rx, f in READ_TARGETS:
            if re.search(rx, before):
                field = f
                break
        if field is None:
            raise ExtractError("column read of %s: cannot tell what %r feeds" % (stmt, before))
        out.append((int(m.group(2)), m.group(1), field))
    if not out:
        raise ExtractError("no column reads found for " + stmt)
    return out


def dep_decode(body, where):
    oo = re.search(r"bool\s+orderOnly\s*=\s*raw\s*&\s*(\d+)\s*;", body)
    su = re.search(r"bool\s+singleUse\s*=\s*\(\s*raw\s*>>\s*(\d+)\s*\)\s*&\s*(\d+)\s*;", body)
    idm = re.search(r"DBKeyID\s+dbKeyID\(\s*raw\s*>>\s*(\d+)\s*\)\s*;", body)
    w = re.search(r"int\s+numDependencies\s*=\s*numDependencyBytes\s*/\s*sizeof\((\w+)\)\s*;", body)
    if not (oo and su and idm and w):
        raise ExtractError("dependency decoding in %s: unexpected shape" % where)
    if w.group(1) != "uint64_t":
        raise ExtractError("dependency entry type in %s is %s" % (where, w.group(1)))
    if not re.search(r"uint64_t\s+raw\s*;\s*decoder\.read\(raw\)\s*;", body):
        raise ExtractError("dependency decoding in %s: raw is not read as one uint64_t" % where)
    if not re.search(r"dependencies\.set\(\s*i\s*,\s*keyID\s*,\s*orderOnly\s*,\s*singleUse\s*\)", body):
        raise ExtractError("dependency decoding in %s: set(i, keyID, orderOnly, singleUse) not found" % where)
    if not re.search(r"for\s*\(\s*auto\s+i\s*=\s*0\s*;\s*i\s*!=\s*numDependencies\s*;\s*\+\+i\s*\)", body):
        raise ExtractError("dependency decoding in %s: loop is not 0..numDependencies ascending" % where)
    return dict(orderOnlyMask=int(oo.group(1)), singleUseShift=int(su.group(1)), singleUseMask=int(su.group(2)),
                idShift=int(idm.group(1)), entryBytes=8)


TXN_HEADS = ("BEGIN", "END", "COMMIT", "ROLLBACK", "SAVEPOINT", "RELEASE", "PRAGMA", "ATTACH", "DETACH", "VACUUM")


def skip_literal(src, i):
    q = src[i]
    j = i + 1
    while j < len(src) and src[j] != q:
        if src[j] == "\\":
            j += 1
        j += 1
    return j + 1


def member_functions(src):
    """[(name, start, end)] (indices into src of the body braces) of the functions defined directly inside
    `class SQLiteBuildDB { .. }`, and of the free functions of the file (depth 0 of a namespace)."""
    m = re.search(r"class\s+SQLiteBuildDB\s*:\s*public\s+BuildDB\s*\{", src)
    if not m:
        raise ExtractError("class SQLiteBuildDB not found")
    _, cls_end = find_block(src, m.end() - 1)
    out = []

    def scan(lo, hi, scope):
        i, last = lo, lo
        while i < hi:
            c = src[i]
            if c == '"' or c == "'":
                i = skip_literal(src, i)
                continue
            if c == ";" or c == "}":
                last = i + 1
            elif c == "{":
                header = re.sub(r"\s+", " ", src[last:i]).strip()
                _, end = find_block(src, i)
                if i == m.end() - 1:
                    scan(i + 1, end - 1, "class")              # the class itself
                elif re.match(r"^(namespace\b[^()]*|extern \"C\")$", header):
                    scan(i + 1, end - 1, scope)
                elif re.search(r"\)\s*(const\s*)?(noexcept\s*)?(override\s*)?(final\s*)?$", header) and not re.match(r"^(if|for|while|switch)\b", header):
                    fm = re.search(r"(~?\w+)\s*\(", re.sub(r"^(template\s*<[^>]*>\s*)", "", header))
                    if not fm:
                        raise ExtractError("cannot name the function with header %r" % header)
                    out.append((fm.group(1), i, end))
                # anything else (struct, enum, initializer) holds no code
                i = end
                last = end
                continue
            i += 1
    scan(0, len(src), "file")
    if not any(n == "setRuleResult" for n, _, _ in out) or not any(n == "open" for n, _, _ in out):
        raise ExtractError("member functions of SQLiteBuildDB not recognised: %s" % [n for n, _, _ in out])
    return out


def enclosing(funcs, idx):
    best = None
    for n, a, b in funcs:
        if a <= idx < b and (best is None or a > best[1]):
            best = (n, a, b)
    return best[0] if best else "<outside any function>"


def txn_statements(text):
    out = []
    for st in text.split(";"):
        w = st.strip().split()
        if w and w[0].upper() in TXN_HEADS:
            out.append(" ".join(st.split()) + ";")
    return out


def transaction_shape(src):
    funcs = member_functions(src)
    by_fn = []
    for idx, text in merged_literals(src):
        sts = txn_statements(text)
        if not sts:
            continue
        fn = enclosing(funcs, idx)
        if by_fn and by_fn[-1][0] == fn:
            by_fn[-1][1].extend(sts)
        else:
            by_fn.append((fn, sts))
    nonlit = []
    for m in re.finditer(r"\b(sqlite3_exec|sqlite3_prepare\w*)\s*\(", src):
        # split the argument list at depth 0
        depth, j, args, cur = 0, m.end(), [], ""
        while j < len(src):
            c = src[j]
            if c == '"' or c == "'":
                k = skip_literal(src, j)
                cur += src[j:k]
                j = k
                continue
            if c in "([{":
                depth += 1
            elif c in ")]}":
                if depth == 0:
                    args.append(cur)
                    break
                depth -= 1
            if c == "," and depth == 0:
                args.append(cur)
                cur = ""
            else:
                cur += c
            j += 1
        if len(args) < 2:
            raise ExtractError("%s call with %d arguments" % (m.group(1), len(args)))
        a = args[1].strip()
        while a.startswith("(") and a.endswith(")"):
            a = a[1:-1].strip()
        if not re.match(r'^("([^"\\\\]|\\\\.)*"\s*)+$', a, re.S):
            nonlit.append((enclosing(funcs, m.start()), m.group(1), re.sub(r"\s+", " ", a)))
    calls = sorted(set(re.findall(r"\b(sqlite3_\w+)\s*\(", src)))
    return by_fn, nonlit, calls


def lstr_list(xs):
    return "[" + ", ".join(lean_str(x) for x in xs) + "]"


def run():
    raw = read(REL)
    src = strip_comments(raw)
    used = []

    m = re.search(r"static\s+const\s+int\s+currentSchemaVersion\s*=\s*(\d+)\s*;", src)
    if not m:
        raise ExtractError("currentSchemaVersion not found")
    version = int(m.group(1))

    # ---- open(): schema creation, version gate, busy timeout -------------------------------------
    open_body = function_body(src, r"bool\s+open\s*\(\s*std::string\s*\*\s*error_out\s*\)")
    used.append((REL, open_body))
    open_sql = sql_literals(open_body)
    tables = [parse_create_table(s) for s in open_sql if s.startswith("CREATE TABLE")]
    if [t[0] for t in tables] != ["info", "key_names", "rule_results"]:
        raise ExtractError("expected CREATE TABLE info, key_names, rule_results; found %s" % [t[0] for t in tables])
    m = re.search(r"sqlite3_busy_timeout\(\s*db\s*,\s*(\d+)\s*\)", open_body)
    if not m:
        raise ExtractError("busy timeout not found")
    busy = int(m.group(1))
    m = re.search(r"if\s*\(\s*(version\s*!=\s*currentSchemaVersion\s*\|\|\s*clientVersion\s*!=\s*clientSchemaVersion)\s*\)", open_body)
    gate = re.sub(r"\s+", " ", m.group(1)) if m else None
    if gate is None:
        m = re.search(r"if\s*\(([^{}]*?currentSchemaVersion[^{}]*?)\)\s*\{", open_body)
        if not m:
            raise ExtractError("version gate condition not found")
        gate = re.sub(r"\s+", " ", m.group(1)).strip()
    m = re.search(r"if\s*\(\s*(!?\s*recreateOnUnmatchedVersion)\s*\)", open_body)
    if not m:
        raise ExtractError("recreate/refuse branch not found")
    refuse_cond = re.sub(r"\s+", "", m.group(1))
    m = re.search(r"sqlite3_mprintf\(\s*\"INSERT INTO info VALUES \(([^\"]*)\);\"\s*,\s*([\w\s,]+?)\)", open_body)
    if not m:
        raise ExtractError("initial info row not found")
    info_row = "(%s) <- %s" % (m.group(1), re.sub(r"\s+", " ", m.group(2)).strip())
    # how the stored versions are read back
    rd = re.search(r"version\s*=\s*sqlite3_column_(\w+)\(stmt,\s*0\)\s*;\s*clientVersion\s*=\s*sqlite3_column_(\w+)\(stmt,\s*1\)", open_body)
    if not rd:
        raise ExtractError("version read-back not found")

    # ---- prepared statements -------------------------------------------------------------------
    stmts = []
    lits = merged_literals(src)
    for m in re.finditer(r"static\s+constexpr\s+const\s+char\s*\*\s*(\w+)SQL\s*=\s*\(?\s*", src):
        at = m.end()
        lit = next((t for i, t in lits if i == at), None)
        if lit is None:
            raise ExtractError("SQL text of %s not found" % m.group(1))
        stmts.append((m.group(1), lit))
    names = [s[0] for s in stmts]
    need = ["deleteFromKeysStmt", "findRuleResultStmt", "fastFindRuleResultStmt", "getKeysWithResultStmt",
            "insertIntoRuleResultsStmt", "findKeyIDForKeyStmt", "findKeyNameForKeyIDStmt", "insertIntoKeysStmt"]
    if sorted(names) != sorted(need):
        raise ExtractError("prepared statements: expected %s, found %s" % (sorted(need), sorted(names)))
    stmts.sort(key=lambda s: need.index(s[0]))
    sd = dict(stmts)

    # ---- inline statements ---------------------------------------------------------------------
    def one_sql(sig, what):
        body = function_body(src, sig)
        used.append((REL, body))
        ls = sql_literals(body)
        if len(ls) != 1:
            raise ExtractError("%s: expected one SQL literal, found %s" % (what, ls))
        return body, ls[0]
    ep_body, epoch_sql = one_sql(r"virtual\s+Epoch\s+getCurrentEpoch\s*\([^)]*\)\s*override", "getCurrentEpoch")
    it_body, iter_sql = one_sql(r"virtual\s+bool\s+setCurrentIteration\s*\([^)]*\)\s*override", "setCurrentIteration")
    bs_body, begin_sql = one_sql(r"virtual\s+bool\s+buildStarted\s*\([^)]*\)\s*override", "buildStarted")
    bc_body, end_sql = one_sql(r"virtual\s+void\s+buildComplete\s*\(\s*\)\s*override", "buildComplete")
    closes_after_end = bool(re.search(r"sqlite3_exec\(.*?\)\s*;.*\bclose\(\)\s*;", bc_body, re.S))
    if not re.search(r"sqlite3_bind_int64\(\s*stmt\s*,\s*1\s*,\s*value\s*\)", it_body):
        raise ExtractError("setCurrentIteration: bind of value not found")
    if not re.search(r"uint64_t\s+iteration\s*=\s*sqlite3_column_int64\(\s*stmt\s*,\s*0\s*\)", ep_body):
        raise ExtractError("getCurrentEpoch: iteration read not found")
    pragmas = [t for _, t in lits if "PRAGMA" in t.upper()]
    close_body = function_body(src, r"void\s+close\s*\(\s*\)")
    used.append((REL, close_body))
    if not re.search(r"sqlite3_close\(\s*db\s*\)", close_body):
        raise ExtractError("close(): sqlite3_close(db) not found")
    close_clears = bool(re.search(r"\bengineKeyIDs\.clear\(\)\s*;", close_body)) and bool(re.search(r"\bdbKeyIDs\.clear\(\)\s*;", close_body))
    if len(re.findall(r"\b(?:engineKeyIDs|dbKeyIDs)\.(?:clear|erase)\(", src)) != (2 if close_clears else 0):
        raise ExtractError("id caches are cleared/erased somewhere the model does not know about")

    # ---- setRuleResult: binds + dependency encoding ---------------------------------------------
    set_body = function_body(src, r"virtual\s+bool\s+setRuleResult\s*\([^)]*\)\s*override")
    used.append((REL, set_body))
    binds = []
    for m in re.finditer(r"sqlite3_bind_(\w+)\(\s*insertIntoRuleResultsStmt\s*,\s*(\d+)\s*,\s*([\w.>\-]+(?:\(\))?)", set_body):
        e = m.group(3)
        if e not in BIND_EXPR:
            raise ExtractError("setRuleResult: unknown bound expression " + e)
        binds.append((int(m.group(2)), m.group(1), BIND_EXPR[e]))
    if len(binds) != 8:
        raise ExtractError("setRuleResult: expected 8 binds, found %d" % len(binds))
    m = re.search(r"encoder\.write\(\s*\(\s*dbKeyID\.value\s*<<\s*(\d+)\s*\)\s*([+|])\s*\(\s*dependency\.singleUse\s*<<\s*(\d+)\s*\)\s*([+|])\s*dependency\.orderOnly\s*\)\s*;", set_body)
    if not m:
        raise ExtractError("dependency encoding: unexpected shape")
    enc = dict(idShift=int(m.group(1)), singleUseShift=int(m.group(3)), orderOnlyShift=0)
    if not re.search(r"for\s*\(\s*auto\s+dependency\s*:\s*ruleResult\.dependencies\s*\)", set_body):
        raise ExtractError("dependency encoding: not a forward range-for over ruleResult.dependencies")
    if not re.search(r"auto\s+dbKeyID\s*=\s*getKeyID\(\s*keyID\s*,\s*error_out\s*\)\s*;.*for\s*\(\s*auto\s+dependency", set_body, re.S):
        raise ExtractError("setRuleResult: the rule's own key is not mapped before its dependencies")

    # ---- readers -------------------------------------------------------------------------------
    look_body = function_body(src, r"virtual\s+bool\s+lookupRuleResult\s*\(\s*KeyID\s+keyID\s*,\s*const\s+KeyType\s*&\s*key[^)]*\)\s*override")
    keys_body = function_body(src, r"bool\s+getKeysWithResult\s*\([^)]*\)\s*override")
    used += [(REL, look_body), (REL, keys_body)]
    if not re.search(r"auto\s+stmt\s*=\s*getKeysWithResultStmt\s*;", keys_body):
        raise ExtractError("getKeysWithResult: statement alias not found")
    reads = [("fastFindRuleResultStmt", column_reads(look_body, "fastFindRuleResultStmt")),
             ("findRuleResultStmt", column_reads(look_body, "findRuleResultStmt")),
             ("getKeysWithResultStmt", column_reads(keys_body, "stmt"))]
    dec_lookup = dep_decode(look_body, "lookupRuleResult")
    dec_keys = dep_decode(keys_body, "getKeysWithResult")
    selects = [(n, select_list(sd[n])) for n in ("fastFindRuleResultStmt", "findRuleResultStmt", "getKeysWithResultStmt")]

    # ---- key parameter binds -------------------------------------------------------------------
    key_binds = []
    for m in re.finditer(r"sqlite3_bind_(\w+)\(\s*(\w+)\s*,\s*1\s*,\s*key\.data\(\)\s*,\s*key\.size\(\)", src):
        key_binds.append((m.group(2), m.group(1)))
    if sorted(k for k, _ in key_binds) != ["findKeyIDForKeyStmt", "findRuleResultStmt", "insertIntoKeysStmt"]:
        raise ExtractError("key binds: expected three, found %s" % key_binds)
    key_binds.sort()

    # ---- BuildSystem merged version, recreate flags ---------------------------------------------
    bs = strip_comments(read(REL_BS))
    m = re.search(r"static\s+const\s+uint32_t\s+internalSchemaVersion\s*=\s*(\d+)\s*;", bs)
    if not m:
        raise ExtractError("BuildSystem internalSchemaVersion not found")
    internal = int(m.group(1))
    mbody = function_body(bs, r"(\w+)\s+getMergedSchemaVersion\s*\(\s*\)")
    used.append((REL_BS, mbody))
    rt = re.search(r"(\w+)\s+getMergedSchemaVersion\s*\(\s*\)", bs).group(1)
    widths = {"uint32_t": 32, "uint64_t": 64}
    if rt not in widths:
        raise ExtractError("getMergedSchemaVersion returns " + rt)
    m = re.search(r"return\s+internalSchemaVersion\s*\+\s*\(\s*clientVersion\s*<<\s*(\d+)\s*\)\s*;", mbody)
    if not m:
        raise ExtractError("merged version expression: unexpected shape")
    mshift = int(m.group(1))
    m = re.search(r"assert\(\s*clientVersion\s*(<=|<)\s*\(\s*1\s*<<\s*(\d+)\s*\)", mbody)
    assert_txt = "%s (1 << %s)" % (m.group(1), m.group(2)) if m else "none"
    dt = re.search(r"uint32_t\s+getVersion\(\)\s*const", strip_comments(read("include/llbuild/BuildSystem/BuildSystem.h")))
    if not dt:
        raise ExtractError("BuildSystemDelegate::getVersion is no longer uint32_t")
    m = re.search(r"createSQLiteBuildDB\(\s*filename\s*,\s*getMergedSchemaVersion\(\)\s*,\s*(true|false)\s*,", bs)
    if not m:
        raise ExtractError("BuildSystem attachDB: createSQLiteBuildDB call not found")
    bs_recreate = m.group(1)
    capi = strip_comments(read(REL_CAPI))
    m = re.search(r"createSQLiteBuildDB\(\s*path\s*,\s*clientSchemaVersion\s*,\s*(true|false)\s*,", capi)
    if not m:
        raise ExtractError("C API: createSQLiteBuildDB call not found")
    capi_recreate = m.group(1)
    used.append((REL_CAPI, m.group(0)))

    # ---- transaction shape of the whole file ----------------------------------------------------
    txn_by_fn, sql_nonlit, sqlite_calls = transaction_shape(src)
    used.append((REL, src))

    # ---- emit ----------------------------------------------------------------------------------
    L = []
    L.append("namespace LLBuild.Generated.SQLiteDB\n")
    L.append("/-- `SQLiteBuildDB::currentSchemaVersion` -/\ndef currentSchemaVersion : Nat := %d\n" % version)
    L.append("/-- `sqlite3_busy_timeout(db, _)` in `open` (milliseconds) -/\ndef busyTimeoutMs : Nat := %d\n" % busy)
    L.append("/-- the CREATE TABLE strings executed by `open`: table, then (column, declared type, column constraints) in order -/")
    L.append("def tables : List (String × List (String × String × String)) := [")
    L.append(",\n".join("  (%s, [%s])" % (lean_str(t), ", ".join("(%s, %s, %s)" % (lean_str(c), lean_str(ty), lean_str(cs)) for c, ty, cs in cols))
                        for t, cols, _ in tables))
    L.append("]\n")
    L.append("def tableConstraints : List (String × List String) := [%s]\n" % ", ".join("(%s, %s)" % (lean_str(t), lstr_list(tc)) for t, _, tc in tables))
    keycol = [ty for c, ty, cs in tables[1][1] if c == "key"]
    if len(keycol) != 1:
        raise ExtractError("key_names has no single `key` column")
    keycons = [cs for c, ty, cs in tables[1][1] if c == "key"][0]
    L.append("/-- declared type of `key_names.key` as bytes (`%s`); SQLite derives the column affinity from this text -/" % keycol[0])
    L.append("def keyColumnDeclType : List UInt8 := %s\n" % lean_bytes(list(keycol[0].encode())))
    L.append("def keyColumnConstraints : String := %s\n" % lean_str(keycons))
    L.append("/-- every SQL literal executed/prepared by `open`, in source order -/\ndef openSQL : List String := [\n  %s]\n" % ",\n  ".join(lean_str(s) for s in open_sql))
    L.append("/-- prepared statements: member name, SQL text -/\ndef statements : List (String × String) := [\n  %s]\n" %
             ",\n  ".join("(%s, %s)" % (lean_str(n), lean_str(t)) for n, t in stmts))
    L.append("def getCurrentEpochSQL : String := %s" % lean_str(epoch_sql))
    L.append("def setCurrentIterationSQL : String := %s" % lean_str(iter_sql))
    L.append("/-- the statement `buildStarted` executes -/\ndef buildStartedSQL : String := %s" % lean_str(begin_sql))
    L.append("/-- the statement `buildComplete` executes -/\ndef buildCompleteSQL : String := %s" % lean_str(end_sql))
    L.append("def buildCompleteClosesConnection : Bool := %s" % ("true" if closes_after_end else "false"))
    L.append("/-- does `close()` clear `engineKeyIDs` and `dbKeyIDs`? -/\ndef closeClearsCaches : Bool := %s" % ("true" if close_clears else "false"))
    L.append("/-- every literal containing PRAGMA anywhere in the file -/\ndef pragmas : List String := %s\n" % lstr_list(pragmas))
    L.append("/-- condition under which `open` discards / refuses the file -/\ndef versionGateCondition : String := %s" % lean_str(gate))
    L.append("def refuseCondition : String := %s" % lean_str(refuse_cond))
    L.append("def initialInfoRow : String := %s" % lean_str(info_row))
    L.append("def versionReadAccessors : List String := %s\n" % lstr_list([rd.group(1), rd.group(2)]))
    L.append("/-- select list (table prefixes dropped) of the three result queries -/\ndef selectColumns : List (String × List String) := [\n  %s]\n" %
             ",\n  ".join("(%s, %s)" % (lean_str(n), lstr_list(cs)) for n, cs in selects))
    L.append("/-- `sqlite3_bind_<kind>(insertIntoRuleResultsStmt, index, <expr>)` in `setRuleResult`: (index, kind, Result field bound) -/")
    L.append("def insertBinds : List (Nat × String × String) := [%s]\n" % ", ".join("(%d, %s, %s)" % (i, lean_str(k), lean_str(f)) for i, k, f in binds))
    L.append("/-- `sqlite3_column_<accessor>(stmt, index)` calls of the three readers: (index, accessor, Result field fed) -/")
    L.append("def columnReads : List (String × List (Nat × String × String)) := [\n  %s]\n" %
             ",\n  ".join("(%s, [%s])" % (lean_str(n), ", ".join("(%d, %s, %s)" % (i, lean_str(a), lean_str(f)) for i, a, f in rs)) for n, rs in reads))
    L.append("/-- bind kind of the key parameter of each statement comparing/inserting `key_names.key` -/")
    L.append("def keyBinds : List (String × String) := [%s]\n" % ", ".join("(%s, %s)" % (lean_str(n), lean_str(k)) for n, k in key_binds))
    L.append("/-- `encoder.write((dbKeyID.value << a) + (dependency.singleUse << b) + dependency.orderOnly)` -/")
    L.append("structure DepEnc where\n  idShift : Nat\n  singleUseShift : Nat\n  orderOnlyShift : Nat\n  deriving DecidableEq, Repr\n")
    L.append("/-- `orderOnly = raw & m0; singleUse = (raw >> s) & m1; id = raw >> a`; `entryBytes = sizeof(uint64_t)` -/")
    L.append("structure DepDec where\n  orderOnlyMask : Nat\n  singleUseShift : Nat\n  singleUseMask : Nat\n  idShift : Nat\n  entryBytes : Nat\n  deriving DecidableEq, Repr\n")
    L.append("def depEnc : DepEnc := ⟨%d, %d, %d⟩" % (enc["idShift"], enc["singleUseShift"], enc["orderOnlyShift"]))
    for nm, d in (("depDecLookup", dec_lookup), ("depDecKeys", dec_keys)):
        L.append("def %s : DepDec := ⟨%d, %d, %d, %d, %d⟩" % (nm, d["orderOnlyMask"], d["singleUseShift"], d["singleUseMask"], d["idShift"], d["entryBytes"]))
    L.append("")
    L.append("/-- BuildSystem: `internalSchemaVersion + (clientVersion << mergedShift)` computed in `mergedWidth`-bit unsigned arithmetic -/")
    L.append("def bsInternalSchemaVersion : Nat := %d\ndef mergedShift : Nat := %d\ndef mergedWidth : Nat := %d" % (internal, mshift, widths[rt]))
    L.append("def mergedAssert : String := %s" % lean_str(assert_txt))
    L.append("/-- `recreateUnmatchedVersion` passed by the two openers -/\ndef recreateFlagBuildSystem : Bool := %s\ndef recreateFlagCAPI : Bool := %s" % (bs_recreate, capi_recreate))
    L.append("")
    L.append("/-- every transaction-control / journalling statement (BEGIN, END, COMMIT, ROLLBACK, SAVEPOINT, RELEASE, PRAGMA, ATTACH,\n"
             "DETACH, VACUUM) in any string literal of the file, grouped by the function that contains the literal, in source order -/")
    L.append("def txnControl : List (String × List String) := [\n  %s]\n" % ",\n  ".join("(%s, %s)" % (lean_str(f), lstr_list(sts)) for f, sts in txn_by_fn))
    L.append("/-- `sqlite3_exec` / `sqlite3_prepare*` calls whose SQL argument is not a string literal: (function, callee, expression) -/")
    L.append("def sqlArgsNotLiteral : List (String × String × String) := [\n  %s]\n" % ",\n  ".join("(%s, %s, %s)" % (lean_str(f), lean_str(c), lean_str(e)) for f, c, e in sql_nonlit))
    L.append("/-- every `sqlite3_*` function called anywhere in the file -/")
    L.append("def sqliteCalls : List String := %s" % lstr_list(sqlite_calls))
    L.append("\nend LLBuild.Generated.SQLiteDB")
    return write_generated("SQLiteDB", "\n".join(L), used)


if __name__ == "__main__":
    print(run())
