"""X7: lib/Basic/ShellUtility.cpp appendShellEscapedString (non-Windows branch) -> Generated/ShellWhitelist.lean

Extracted: the whitelist string literal, the quote character used to open/close a quoted span, and the
replacement emitted for an embedded single quote.  Fails closed if the function no longer has the three-way
shape (all whitelisted / no single quote / escape every single quote) the hand model transcribes."""
import re
from xcommon import *

REL = "lib/Basic/ShellUtility.cpp"
S = r"\"((?:[^\"\\]|\\.)*)\""


def run():
    src = strip_comments(read(REL))
    body = function_body(src, r"void\s+appendShellEscapedString\s*\(\s*llvm::raw_ostream\s*&\s*os\s*,\s*StringRef\s+string\s*\)")
    m = re.search(r"#else(.*)#endif", body, re.S)
    if not m:
        raise ExtractError("appendShellEscapedString: no non-Windows branch")
    b = m.group(1)
    norm = re.sub(r"\s+", " ", b).strip()
    shape = (r"static const std::string whitelist = " + S + r"; "
             r"auto pos = string\.find_first_not_of\(whitelist\); "
             r"if \(pos == std::string::npos\) \{ os << string; return; \} "
             r"std::string escQuote = " + S + r"; "
             r"auto singleQuotePos = string\.find_first_of\(" + S + r" ?, pos\); "
             r"if \(singleQuotePos == std::string::npos\) \{ os << " + S + r" << string << " + S + r"; return; \} "
             r"os << " + S + r"; "
             r"os << string\.slice\(0, singleQuotePos\); "
             r"for \(auto idx = singleQuotePos; idx < string\.size\(\); idx\+\+\) \{ "
             r"if \(string\[idx\] == '\\'\'\) \{ os << " + S + r"; \} else \{ os << string\[idx\]; \} \} "
             r"os << " + S + r";")
    mm = re.fullmatch(shape, norm)
    if not mm:
        raise ExtractError("appendShellEscapedString: body no longer has the transcribed shape")
    wl, escq, find, q1, q2, q3, repl, q4 = [c_string_bytes(g) for g in mm.groups()]
    if not (find == q1 == q2 == q3 == q4 == [39]):
        raise ExtractError("appendShellEscapedString: quote characters differ")
    if not wl or 0 in wl:
        raise ExtractError("appendShellEscapedString: suspicious whitelist")
    lean = "\n".join([
        "namespace LLBuild.Generated.Shell", "",
        "/-- bytes of the `whitelist` literal of `appendShellEscapedString` (non-Windows branch) -/",
        "def whitelist : List UInt8 := %s" % lean_bytes(wl),
        "-- %s" % bytes(wl).decode("latin-1"), "",
        "/-- the character that opens and closes a quoted span, and that is searched for -/",
        "def quote : UInt8 := 39", "",
        "/-- what is emitted for an embedded quote character -/",
        "def quoteReplacement : List UInt8 := %s" % lean_bytes(repl), "",
        "end LLBuild.Generated.Shell"]) + "\n"
    return write_generated("ShellWhitelist", lean, [(REL, b)])


if __name__ == "__main__":
    print(run())
