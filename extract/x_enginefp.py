"""X13: structural fingerprint of the anchored lines of lib/Core/BuildEngine.cpp (not a translation:
the hand model's constants are asserted against it) -> Generated/EngineFingerprint.lean"""
import re
from xcommon import *


def norm(s):
    return re.sub(r"\s+", " ", s).strip()


def run():
    rel = "lib/Core/BuildEngine.cpp"
    src = strip_comments(read(rel))
    fp = []

    def body(sig):
        return function_body(src, sig)

    scan = norm(body(r"bool\s+scanRule\s*\(\s*RuleInfo\s*&\s*ruleInfo\s*\)"))
    order = []
    for pat, name in [(r"ruleInfo\.result\.dependencies\.cleanSingleUseDependencies\(\)", "cleanSingleUse"),
                      (r"ruleInfo\.result\.builtAt == 0", "neverBuilt"),
                      (r"ruleInfo\.rule->signature != ruleInfo\.result\.signature", "signature"),
                      (r"!ruleInfo\.rule->isResultValid\(", "valid"),
                      (r"ruleInfo\.result\.dependencies\.empty\(\)", "noDeps")]:
        m = re.search(pat, scan)
        if not m:
            raise ExtractError("scanRule: missing " + name)
        order.append((m.start(), name))
    fp.append(("scanRule.order", ",".join(n for _, n in sorted(order))))

    dem = norm(body(r"bool\s+demandRule\s*\(\s*RuleInfo\s*&\s*ruleInfo\s*\)"))
    fp.append(("demandRule.clearsDeps", str("ruleInfo.result.dependencies.clear();" in dem).lower()))
    m = re.search(r"if \((ruleInfo\.result\.builtAt != 0 && ruleInfo\.rule->signature == ruleInfo\.result\.signature)\)", dem)
    fp.append(("demandRule.priorCondition", m.group(1) if m else "?"))

    psr = norm(body(r"void\s+processRuleScanRequest\s*\(\s*RuleScanRequest\s+request\s*\)"))
    m = re.search(r"if \(ruleInfo\.result\.builtAt (<=|<|>=|>|==|!=) inputRuleInfo\.result\.computedAt\)", psr)
    fp.append(("scan.staleTest", "builtAt " + (m.group(1) if m else "?") + " input.computedAt"))
    fp.append(("scan.orderOnlySkips", str(bool(re.search(r"if \(request\.orderOnly\) \{ \} else \{", psr))).lower()))

    ex = norm(body(r"bool\s+executeTasks\s*\(\s*const\s+KeyType\s*&\s*buildKey\s*\)"))
    for q, name in [("ruleInfosToScan", "toScan"), ("inputRequests", "inputRequests"), ("finishedInputRequests", "finishedInputs"),
                    ("readyTaskInfos", "ready"), ("finishedTaskInfos", "finished")]:
        kind = "?"
        if re.search(q + r"\.back\(\); " + q + r"\.pop_back\(\)", ex):
            kind = "lifo"
        elif re.search(q + r"\.front\(\); " + q + r"\.pop_front\(\)", ex):
            kind = "fifo"
        fp.append(("queue." + name, kind))
    fp.append(("loop.cancelCheckedAtTop", str(bool(re.search(r"bool didWork = false; (LLBUILD_VERIF_HOOK\(0\); )?if \(buildCancelled\) \{ cancelRemainingTasks\(\); return false; \}", ex))).lower()))
    fp.append(("loop.recordsDepAtProcessing", str("request.taskInfo->forRuleInfo->result.dependencies.push_back( request.inputRuleInfo->keyID, request.orderOnly, request.singleUse);" in ex).lower()))
    fp.append(("loop.appendsDiscovered", str("ruleInfo->result.dependencies.append(taskInfo->discoveredDependencies);" in ex).lower()))
    fp.append(("loop.waitRechecksEmpty", str(bool(re.search(r"std::unique_lock<std::mutex> lock\(finishedTaskInfosMutex\); if \(finishedTaskInfos\.empty\(\)\) \{ finishedTaskInfosCondition\.wait\(lock\); \}", ex))).lower()))

    tic = norm(body(r"void\s+taskIsComplete\s*\(\s*Task\s*\*\s*task\s*,\s*ValueType\s*&&\s*value\s*,\s*bool\s+forceChange\s*\)"))
    fp.append(("complete.unchangedTest", str("if (!forceChange && value == ruleInfo->result.value) {" in tic).lower()))
    fp.append(("complete.stampsEpoch", str("ruleInfo->result.computedAt = currentEpoch;" in tic).lower()))
    fp.append(("complete.pushThenNotify", str(bool(re.search(r"\{ std::lock_guard<std::mutex> guard\(finishedTaskInfosMutex\); finishedTaskInfos\.push_back\(taskInfo\); \} finishedTaskInfosCondition\.notify_one\(\);", tic))).lower()))

    can = norm(body(r"void\s+cancelRemainingTasks\s*\(\s*\)"))
    fp.append(("cancel.resetsInterrupted", str("ruleInfo->result.builtAt = 0;" in can).lower()))
    fp.append(("cancel.drainsBeforeReset", str(can.find("numOutstandingUnfinishedTasks != 0") < can.find("setCancelled()")).lower()))

    bld = norm(body(r"const\s+ValueType\s*&\s*build\s*\(\s*const\s+KeyType\s*&\s*key\s*\)"))
    fp.append(("build.epochBeforeWork", str(bld.find("++currentEpoch;") < bld.find("executeTasks(key)")).lower()))
    fp.append(("build.iterationAfterWork", str(bld.find("executeTasks(key)") < bld.find("db->setCurrentIteration(currentEpoch")).lower()))

    lean = ["namespace LLBuild.Generated", "",
            "/-- structural fingerprint of lib/Core/BuildEngine.cpp at the lines the engine properties are anchored in -/",
            "def engineFingerprint : List (String × String) := ["]
    lean.append(",\n".join("  (%s, %s)" % (lean_str(k), lean_str(v)) for k, v in fp))
    lean.append("]")
    lean.append("\nend LLBuild.Generated")
    return write_generated("EngineFingerprint", "\n".join(lean), [(rel, scan + dem + psr + ex + tic + can + bld)])


if __name__ == "__main__":
    print(run())
