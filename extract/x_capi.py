"""X9 (C20): the forwarding functions of products/libllbuild/Core-C-API.cpp -> Generated/CApiForward.lean

clang-14 JSON AST.  For every `llb_buildengine_*` function with a body: its parameters, every call it makes on the
engine (`TaskInterface::*`, `BuildEngine::*`, free functions of namespace llbuild) with the *shape* of each argument
(which C parameter lands in which slot, and how byte blobs are turned into keys/values), and the parameters that are
never referenced.  For the whole file: every `llb_data_t{...}` the library hands to the client (shape: size()/data() of
one object).  Fails closed on any shape it does not know (`Arg.other` makes the theorems false; unknown AST => ExtractError).

Callback direction (engine -> client) -> Generated/CApiCallbacks.lean: for every method of the `CAPI*` classes
(`CAPIBuildEngineDelegate`, its nested `CAPIRule`, `CAPITask`; destructors included) every call through a function-pointer
field of core.h's `llb_rule_t` / `llb_buildengine_delegate_t` / `llb_task_delegate_t`: which field, under which null-check
guard and with which fallback, the shape of every argument in order, and what is done with the returned value; the
`Rule::StatusKind -> llb_rule_status_kind_t` mapping (the method is interpreted once per enumerator); the way the cycle's
key array is built (source parameter, element shape, order).  Unknown shapes become `.other` constructors, which no
documented row contains; a callback call the AST walk does not account for (text count != AST count) => ExtractError.
"""
import json, os, re, subprocess
from xcommon import *

SRC = "products/libllbuild/Core-C-API.cpp"
HDR = "products/libllbuild/include/llbuild/core.h"
ENGINE_TYPES = ("TaskInterface", "BuildEngine")
WRAPPERS = ("ImplicitCastExpr", "MaterializeTemporaryExpr", "CXXBindTemporaryExpr", "ExprWithCleanups", "ParenExpr",
            "CXXFunctionalCastExpr", "ConstantExpr")


_AST_CACHE = {}


def ast(filt):
    if filt not in _AST_CACHE:
        _AST_CACHE[filt] = _ast(filt)
    return _AST_CACHE[filt]


def prefetch(filts):
    """run the clang invocations of one extraction in parallel (each parses the whole translation unit)"""
    from concurrent.futures import ThreadPoolExecutor
    todo = [f for f in filts if f not in _AST_CACHE]
    with ThreadPoolExecutor(max_workers=max(1, len(todo))) as ex:
        for f, r in zip(todo, ex.map(_ast, todo)):
            _AST_CACHE[f] = r


def _ast(filt):
    cmd = ["clang++-14", "-std=gnu++17", "-fsyntax-only", "-fno-rtti", "-include", os.path.join(REPO, "include/libstdc++14-workaround.h"),
           "-I" + os.path.join(REPO, "include"), "-I" + os.path.join(REPO, "products/libllbuild/include"),
           "-Xclang", "-ast-dump=json", "-Xclang", "-ast-dump-filter=" + filt, os.path.join(REPO, SRC)]
    p = subprocess.run(cmd, stdout=subprocess.PIPE, stderr=subprocess.PIPE)
    if p.returncode != 0:
        raise ExtractError("clang failed: " + p.stderr.decode()[-400:])
    txt = p.stdout.decode()
    dec = json.JSONDecoder()
    i, objs = 0, []
    while i < len(txt):
        while i < len(txt) and txt[i].isspace():
            i += 1
        if i >= len(txt):
            break
        if txt.startswith("Dumping", i):
            i = txt.index("\n", i)
            continue
        o, i = dec.raw_decode(txt, i)
        objs.append(o)
    return objs


def walk(n):
    yield n
    for c in n.get("inner", []) or []:
        yield from walk(c)


def strip(n):
    while n.get("kind") in WRAPPERS and len(n.get("inner", [])) == 1:
        n = n["inner"][0]
    # elidable copy/move construction of the same type
    if n.get("kind") == "CXXConstructExpr" and len(n.get("inner", [])) == 1 and n.get("elidable"):
        return strip(n["inner"][0])
    return n


def ref(n):
    """(kind, name) if n is (after stripping) a reference to a declaration"""
    n = strip(n)
    if n.get("kind") == "DeclRefExpr":
        d = n.get("referencedDecl", {})
        return d.get("kind"), d.get("name")
    return None, None


def member_of_param(n, field):
    """name of parameter p if n is `p-><field>` (possibly under casts), else None"""
    n = strip(n)
    while n.get("kind") == "CStyleCastExpr":
        n = strip(n["inner"][0])
    if n.get("kind") == "MemberExpr" and n.get("name") == field:
        k, nm = ref(n["inner"][0])
        if k == "ParmVarDecl":
            return nm
    return None


class Fn:
    def __init__(self, decl):
        self.name = decl["name"]
        self.params = [(c["name"], c["type"]["qualType"]) for c in decl["inner"] if c["kind"] == "ParmVarDecl"]
        self.pidx = {n: i for i, (n, _) in enumerate(self.params)}
        self.body = [c for c in decl["inner"] if c["kind"] == "CompoundStmt"][0]
        self.locals = {}
        for n in walk(self.body):
            if n.get("kind") == "VarDecl":
                self.locals[n["name"]] = n
        self.calls = []       # (callee, receiver-shape, [arg-shapes], node id)
        self.memcpys = []     # (dst local, src param, len param)
        for n in walk(self.body):
            if n.get("kind") == "CallExpr":
                k, nm = ref(n["inner"][0])
                if nm == "memcpy" and len(n["inner"]) == 4:
                    d = strip(n["inner"][1])
                    dst = None
                    if d.get("kind") == "CXXMemberCallExpr" and d["inner"][0].get("name") == "data":
                        dst = ref(d["inner"][0]["inner"][0])[1]
                    self.memcpys.append((dst, member_of_param(n["inner"][2], "data"), member_of_param(n["inner"][3], "length")))

    def local_shape(self, name):
        v = self.locals.get(name)
        if v is None or not v.get("inner"):
            return "(.localVar)"
        init = strip(v["inner"][0])
        # byte vector of param->length filled by memcpy(param->data, param->length)
        if init.get("kind") == "CXXConstructExpr" and "vector<" in init["type"]["qualType"]:
            p = member_of_param(init["inner"][0], "length") if init.get("inner") else None
            if p is not None and (name, p, p) in self.memcpys and len([m for m in self.memcpys if m[0] == name]) == 1:
                return "(.bytesCopyOf %d)" % self.pidx[p]
            return ".other"
        # result of an engine call (unique_ptr<BuildDB> db(createSQLiteBuildDB(...)))
        for n in walk(v):
            for i, c in enumerate(self.calls):
                if n.get("id") == c[3]:
                    return "(.resultOf %d)" % i
        if init.get("kind") == "CXXConstructExpr" and not init.get("inner"):
            return "(.localVar)"
        return ".other"

    def shape(self, n):
        n = strip(n)
        k = n.get("kind")
        if k == "DeclRefExpr":
            dk, nm = ref(n)
            if dk == "ParmVarDecl":
                return "(.param %d)" % self.pidx[nm]
            if dk == "VarDecl":
                return self.local_shape(nm)
        if k in ("CXXTemporaryObjectExpr", "CXXConstructExpr") and re.search(r"\b(KeyType|std::string|basic_string)\b", n["type"]["qualType"]):
            args = [a for a in n.get("inner", []) if a.get("kind") != "CXXDefaultArgExpr"]
            if len(args) == 2:
                p, q = member_of_param(args[0], "data"), member_of_param(args[1], "length")
                if p is not None and q is not None:
                    return "(.keyOf %d)" % self.pidx[p] if p == q else "(.keyMixed %d %d)" % (self.pidx[p], self.pidx[q])
            if len(args) == 1:
                p = member_of_param(args[0], "data")
                if p is not None:
                    return "(.cstrOf %d)" % self.pidx[p]
            return ".other"
        # conversions that keep (pointer, length) / ownership: StringRef(const std::string&), unique_ptr(unique_ptr&&)
        if k == "CXXConstructExpr" and re.search(r"\b(llvm::StringRef|std::unique_ptr<)", n["type"]["qualType"]):
            args = [a for a in n.get("inner", []) if a.get("kind") != "CXXDefaultArgExpr"]
            if len(args) == 1:
                return self.shape(args[0])
        if k == "CallExpr":
            fk, fn = ref(n["inner"][0])
            if fn == "move" and len(n["inner"]) == 2:
                return self.shape(n["inner"][1])
        if k == "CXXBoolLiteralExpr":
            return "(.constBool %s)" % ("true" if n.get("value") else "false")
        if k == "UnaryOperator" and n.get("opcode") == "&":
            dk, nm = ref(n["inner"][0])
            if dk == "VarDecl":
                return "(.addrLocal)"
        return ".other"

    def receiver(self, base):
        """how the object a member function is called on is obtained from the parameters"""
        for n in walk(base):
            dk, nm = ref(n)
            if dk == "ParmVarDecl":
                return "(.ofParam %d)" % self.pidx[nm]
            if dk == "VarDecl":
                v = self.locals.get(nm)
                if v is not None:
                    for m in walk(v):
                        dk2, nm2 = ref(m)
                        if dk2 == "ParmVarDecl":
                            return "(.ofParam %d)" % self.pidx[nm2]
        return ".none"

    def collect_calls(self):
        for n in walk(self.body):
            if n.get("kind") == "CXXMemberCallExpr":
                me = n["inner"][0]
                if me.get("kind") != "MemberExpr":
                    continue
                bt = me["inner"][0].get("type", {}).get("qualType", "")
                if any(t in bt for t in ENGINE_TYPES):
                    self.calls.append([me["name"], self.receiver(me["inner"][0]), None, n["id"], n])
            elif n.get("kind") == "CallExpr":
                fk, fn = ref(n["inner"][0])
                if fk == "FunctionDecl" and fn in ("createSQLiteBuildDB",):
                    self.calls.append([fn, ".none", None, n["id"], n])
        for c in self.calls:
            args = [a for a in c[4]["inner"][1:]]
            c[2] = [self.shape(a) for a in args if a.get("kind") != "CXXDefaultArgExpr"]

    def unused(self):
        seen = set()
        for n in walk(self.body):
            dk, nm = ref(n) if n.get("kind") == "DeclRefExpr" else (None, None)
            if dk == "ParmVarDecl":
                seen.add(nm)
        return [i for i, (nm, _) in enumerate(self.params) if nm not in seen]


# ==============================================================================================
# callback direction (engine -> client)
# ==============================================================================================
CB_STRUCTS = [("llb_rule_t_", "llb_rule_t", "rule"), ("llb_buildengine_delegate_t_", "llb_buildengine_delegate_t", "engine"),
              ("llb_task_delegate_t_", "llb_task_delegate_t", "task")]
CAST_KINDS = ("CStyleCastExpr", "CXXStaticCastExpr", "CXXReinterpretCastExpr", "CXXFunctionalCastExpr")


class Unknown(Exception):
    pass


def fnptr_arity(qt):
    """number of parameters of a function-pointer type spelled `R (*)(A, B, ...)`; None when it is not one"""
    m = re.match(r"^(.*?)\(\*\)\((.*)\)$", qt.strip())
    if not m:
        return None
    inside = m.group(2).strip()
    if inside in ("", "void"):
        return 0
    depth, n = 0, 1
    for ch in inside:
        if ch in "(<[":
            depth += 1
        elif ch in ")>]":
            depth -= 1
        elif ch == "," and depth == 0:
            n += 1
    return n


def fnptr_returns_void(qt):
    return qt.strip().startswith("void (*)")


def parents_of(root):
    par = {}
    for n in walk(root):
        for c in n.get("inner", []) or []:
            if isinstance(c, dict) and "id" in c:
                par[c["id"]] = n
    return par


def strip_casts(n):
    n = strip(n)
    while n.get("kind") in CAST_KINDS and len(n.get("inner", [])) == 1:
        n = strip(n["inner"][0])
    return n


def is_this(n):
    return strip(n).get("kind") == "CXXThisExpr"


class Callbacks:
    """everything the callback half extracts"""

    def __init__(self):
        # --- the client's callback fields (core.h), in declaration order ---------------------------------
        self.cbs = []            # (ctor, struct typedef, field, arity, returnsVoid)
        seen_structs = set()
        for filt, typedef, pre in CB_STRUCTS:
            recs = [o for o in ast(filt) if o.get("kind") == "CXXRecordDecl" and o.get("name") == filt and o.get("completeDefinition")]
            if len(recs) != 1:
                raise ExtractError("struct %s: %d complete definitions" % (filt, len(recs)))
            seen_structs.add(filt)
            for c in recs[0]["inner"]:
                if c.get("kind") == "FieldDecl":
                    ar = fnptr_arity(c["type"]["qualType"])
                    if ar is not None:
                        self.cbs.append(("%s_%s" % (pre, c["name"]), typedef, c["name"], ar, fnptr_returns_void(c["type"]["qualType"])))
                    elif "(*" in c["type"]["qualType"]:
                        raise ExtractError("field %s.%s: unparsed function-pointer type %s" % (typedef, c["name"], c["type"]["qualType"]))
        self.cb_of = {(t, f): ctor for ctor, t, f, _, _ in self.cbs}
        self.cb_void = {ctor: v for ctor, _, _, _, v in self.cbs}
        # --- the two status enums -------------------------------------------------------------------------
        eng = [o for o in ast("StatusKind") if o.get("kind") == "EnumDecl" and o.get("name") == "StatusKind"]
        if len(eng) != 1:
            raise ExtractError("Rule::StatusKind: %d enum declarations" % len(eng))
        self.eng_status = self.enum_constants(eng[0]["inner"])
        cst = [o for o in ast("llb_rule_") if o.get("kind") == "EnumConstantDecl" and o.get("type", {}).get("qualType") == "llb_rule_status_kind_t"]
        self.c_status = self.enum_constants(cst)
        m = re.search(r"typedef\s+enum[^{]*\{(.*?)\}\s*llb_rule_status_kind_t", strip_comments(read(HDR)), re.S)
        if not m:
            raise ExtractError("core.h: llb_rule_status_kind_t not found")
        textual = re.findall(r"\b(llb_\w+)\b[^,]*?=", m.group(1))
        if textual != [n for n, _ in self.c_status]:
            raise ExtractError("llb_rule_status_kind_t: header text has %r, AST has %r" % (textual, self.c_status))
        if not self.eng_status or not self.c_status:
            raise ExtractError("empty status enum")
        self.enum_val = dict(self.eng_status)
        self.enum_val.update(dict(self.c_status))
        # --- the CAPI classes and their methods -----------------------------------------------------------
        self.methods = []        # dict(ctor, cls, name, decl, params, body)
        classes = []

        def collect(rec):
            if rec.get("kind") == "CXXRecordDecl" and rec.get("name", "").startswith("CAPI") and rec.get("completeDefinition") and not rec.get("isImplicit"):
                classes.append(rec)
                for c in rec.get("inner", []):
                    collect(c)
        for o in ast("CAPI"):
            collect(o)
        if not classes:
            raise ExtractError("no CAPI* classes")
        self.class_names = [c["name"] for c in classes]
        for rec in classes:
            for c in rec.get("inner", []):
                if c.get("isImplicit"):
                    continue
                body = [x for x in c.get("inner", []) if x.get("kind") == "CompoundStmt"]
                if c.get("kind") == "CXXConstructorDecl":
                    if any(self.callback_call(n) for n in walk(c)):
                        raise ExtractError("constructor of %s calls a client callback" % rec["name"])
                    continue
                if c.get("kind") in ("CXXMethodDecl", "CXXDestructorDecl") and body:
                    nm = "dtor" if c["kind"] == "CXXDestructorDecl" else c["name"]
                    if not re.fullmatch(r"\w+", nm):
                        raise ExtractError("method name %r of %s" % (nm, rec["name"]))
                    self.methods.append(dict(ctor="%s_%s" % (rec["name"], nm), cls=rec["name"], name=c["name"], decl=c,
                                             params=[p for p in c["inner"] if p.get("kind") == "ParmVarDecl"], body=body[0]))
                elif c.get("kind") in ("CXXMethodDecl", "CXXDestructorDecl", "FunctionTemplateDecl", "CXXConversionDecl"):
                    raise ExtractError("%s::%s has no body here" % (rec["name"], c.get("name")))
        names = [m["ctor"] for m in self.methods]
        if len(set(names)) != len(names):
            raise ExtractError("overloaded methods in the CAPI classes: %r" % names)
        # --- where CAPIRule::engineContext comes from ----------------------------------------------------
        self.engine_ctx_ok = self.engine_context_field()
        # --- the sites ------------------------------------------------------------------------------------
        self.array = dict(method=None, src=None, order="other", elem=False)
        self.status_map = {n: None for n, _ in self.eng_status}
        self.status_evaluated = False
        for m in self.methods:
            self.analyse(m)
        # a callback call anywhere else in the file is not in the table: fail closed
        nsites = {}
        for m in self.methods:
            for s in m["sites"]:
                nsites[s["field"]] = nsites.get(s["field"], 0) + 1
        for filt in ("llb_buildengine_", "llb_task_create", "llb_data_destroy"):
            for o in ast(filt):
                if any(self.callback_call(n) for n in walk(o)):
                    raise ExtractError("an exported function calls a client callback: %s" % o.get("name"))
        txt = strip_comments(read(SRC))
        for _, _, f, _, _ in self.cbs:
            pass
        for f in sorted(set(f for _, _, f, _, _ in self.cbs)):
            textual = len(re.findall(r"(?:\.|->)\s*%s\s*\(" % re.escape(f), txt))
            if textual != nsites.get(f, 0):
                raise ExtractError("callback %s: %d call(s) in the source text, %d in the CAPI* methods" % (f, textual, nsites.get(f, 0)))

    @staticmethod
    def enum_constants(decls):
        out, nxt = [], 0
        for c in decls:
            if c.get("kind") != "EnumConstantDecl":
                continue
            val = None
            for n in walk(c):
                if n.get("kind") == "ConstantExpr" and "value" in n:
                    val = int(n["value"])
                    break
            if val is None:
                if any(x.get("kind", "").endswith("Expr") or x.get("kind", "").endswith("Literal") or x.get("kind", "").endswith("Operator")
                       for x in c.get("inner", [])):
                    raise ExtractError("enumerator %s: initialiser without a constant value" % c["name"])
                val = nxt
            out.append((c["name"], val))
            nxt = val + 1
        return out

    # ---------------------------------------------------------------------------------------------
    def callback_field(self, n):
        """(struct typedef, field, base node) if n is (after stripping) `X.<callback field>`"""
        n = strip(n)
        if n.get("kind") == "MemberExpr" and n.get("inner"):
            base = strip(n["inner"][0])
            bt = base.get("type", {}).get("qualType", "").replace("const ", "").strip()
            if (bt, n.get("name")) in self.cb_of:
                return bt, n["name"], base
        return None

    def callback_call(self, n):
        if n.get("kind") == "CallExpr" and n.get("inner"):
            return self.callback_field(n["inner"][0])
        return None

    def engine_context_field(self):
        """CAPIRule::engineContext is assigned exactly once, in lookupRule, from this->cAPIDelegate.context, on the rule
        object that is handed to lookup_rule"""
        assigns = []
        for m in self.methods:
            for n in walk(m["body"]):
                if n.get("kind") in ("BinaryOperator", "CompoundAssignOperator") and n.get("opcode", "").endswith("=") and n.get("opcode") not in ("==", "!=", "<=", ">="):
                    lhs = strip(n["inner"][0])
                    if lhs.get("kind") == "MemberExpr" and lhs.get("name") == "engineContext":
                        assigns.append((m, n))
            for n in walk(m["body"]):
                if n.get("kind") == "UnaryOperator" and n.get("opcode") == "&":
                    x = strip(n["inner"][0])
                    if x.get("kind") == "MemberExpr" and x.get("name") == "engineContext":
                        return False
        if len(assigns) != 1:
            return False
        m, n = assigns[0]
        if n.get("opcode") != "=" or m["name"] != "lookupRule":
            return False
        par = parents_of(m["body"])
        if par.get(n["id"], {}).get("id") != m["body"]["id"]:
            return False            # conditional assignment
        lhs, rhs = strip(n["inner"][0]), strip(n["inner"][1])
        if ref(lhs["inner"][0]) != ("VarDecl", "capiRule"):
            return False
        return self.is_engine_delegate_context_of_this(rhs)

    @staticmethod
    def is_engine_delegate_context_of_this(n):
        n = strip(n)
        if n.get("kind") == "MemberExpr" and n.get("name") == "context":
            b = strip(n["inner"][0])
            return b.get("kind") == "MemberExpr" and b.get("name") == "cAPIDelegate" and "llb_buildengine_delegate_t" in b.get("type", {}).get("qualType", "") \
                and is_this(b["inner"][0])
        return False

    # ---------------------------------------------------------------------------------------------
    def analyse(self, m):
        body = m["body"]
        par = parents_of(body)
        pidx = {p.get("name"): i for i, p in enumerate(m["params"]) if p.get("name")}
        locs = {n["name"]: n for n in walk(body) if n.get("kind") == "VarDecl" and n.get("name")}
        refs = {}
        for n in walk(body):
            if n.get("kind") == "DeclRefExpr":
                refs.setdefault(n.get("referencedDecl", {}).get("name"), []).append(n)
        m["sites"] = []
        m["unused"] = [i for i, p in enumerate(m["params"]) if not p.get("name") or p["name"] not in refs]
        m["nblobs"] = sum(1 for n in walk(body) if n.get("kind") == "InitListExpr" and "llb_data_t" in n.get("type", {}).get("qualType", "")
                          and "[" not in n["type"]["qualType"])
        arr = self.find_array(m, par, pidx, locs, refs)
        calls = [n for n in walk(body) if self.callback_call(n)]
        st = self.status_table(m, calls) if any("StatusKind" in p["type"]["qualType"] for p in m["params"]) else None
        for call in calls:
            bt, field, base = self.callback_call(call)
            cb = self.cb_of[(bt, field)]
            ret, guard = self.context_of(m, call, par, cb, base)
            args = [self.arg_shape(m, a, base, pidx, locs, refs, arr, st, call) for a in call["inner"][1:] if a.get("kind") != "CXXDefaultArgExpr"]
            m["sites"].append(dict(cb=cb, field=field, guard=guard, args=args, ret=ret))

    # --- statement context of a call: what happens to its value, and which conditions guard it ----------
    def null_check(self, cond, negated):
        """callback field X such that cond is `X` (negated=False) or `!X` (negated=True), else None"""
        c = strip(cond)
        if negated:
            if not (c.get("kind") == "UnaryOperator" and c.get("opcode") == "!"):
                return None
            c = strip(c["inner"][0])
        f = self.callback_field(c)
        return f

    def same_base(self, a, b):
        a, b = strip(a), strip(b)
        return a.get("kind") == "MemberExpr" and b.get("kind") == "MemberExpr" and a.get("name") == b.get("name") \
            and is_this(a["inner"][0]) and is_this(b["inner"][0])

    def context_of(self, m, call, par, cb, base):
        void = self.cb_void[cb]
        ret, casts, unknown, guards = None, [], False, []
        cur, p = call, par.get(call["id"])
        while p is not None and cur["id"] != m["body"]["id"]:
            k = p.get("kind")
            if ret is None:
                if k in WRAPPERS:
                    pass
                elif k in CAST_KINDS:
                    casts.append(p.get("castKind"))
                elif k == "ReturnStmt":
                    ret = "void" if void else ("passThrough" if not casts else "castPtr" if casts == ["BitCast"] else "other")
                elif k == "UnaryOperator" and p.get("opcode") == "!":
                    ret = "negated"
                elif k in ("BinaryOperator", "ConditionalOperator", "CompoundAssignOperator"):
                    ret = "combined"
                elif k in ("CompoundStmt", "IfStmt"):
                    ret = "void" if void else "dropped"
                    continue            # handle the same parent as a statement below
                else:
                    ret = "other"       # stored in a variable, passed to a function, ...
            else:
                if k == "CompoundStmt":
                    # early exits before the call inside this block
                    for s in p["inner"]:
                        if s["id"] == cur["id"]:
                            break
                        if any(x.get("kind") in ("ReturnStmt", "BreakStmt", "ContinueStmt", "GotoStmt", "CXXThrowExpr") for x in walk(s)):
                            g = self.early_return_guard(s)
                            if g is None:
                                unknown = True
                            else:
                                guards.append(g)
                elif k == "IfStmt":
                    inner = p["inner"]
                    f = self.null_check(inner[0], False) if len(inner) == 2 and not p.get("hasElse") and not p.get("hasInit") and not p.get("hasVar") else None
                    if f is not None and inner[1]["id"] == cur["id"]:
                        guards.append((f, "skip"))
                    else:
                        unknown = True
                elif k in WRAPPERS or k in CAST_KINDS or k == "ReturnStmt":
                    pass
                elif k in ("UnaryOperator", "BinaryOperator", "ConditionalOperator"):
                    if ret in ("negated", "combined"):
                        ret = "combined"
                    else:
                        unknown = True
                else:
                    unknown = True      # loops, switch, lambda, try, ...
            cur, p = p, par.get(p["id"])
        if ret is None:
            ret = "other"
        if unknown or len(guards) > 1:
            return ret, ".other"
        if not guards:
            return ret, ".unguarded"
        (bt, field, gbase), fb = guards[0]
        if not self.same_base(gbase, base):
            return ret, ".other"
        return ret, "(.ifNull .%s .%s)" % (self.cb_of[(bt, field)], fb)

    def early_return_guard(self, s):
        """`if (!X.cb) return [true|false];` -> ((struct, field, base), fallback)"""
        if s.get("kind") != "IfStmt" or len(s["inner"]) != 2 or s.get("hasElse") or s.get("hasInit") or s.get("hasVar"):
            return None
        f = self.null_check(s["inner"][0], True)
        if f is None:
            return None
        t = s["inner"][1]
        if t.get("kind") == "CompoundStmt" and len(t.get("inner", [])) == 1:
            t = t["inner"][0]
        if t.get("kind") != "ReturnStmt":
            return None
        if not t.get("inner"):
            return f, "returnVoid"
        v = strip(t["inner"][0])
        if v.get("kind") == "CXXBoolLiteralExpr":
            return f, "returnTrue" if v.get("value") else "returnFalse"
        return f, "other"

    # --- shapes of the arguments --------------------------------------------------------------------------
    def blob_init_shape(self, init, pidx, locs):
        """llb_data_t{ X.size(), X.data() } -> ('param', i) / ('ruleKeyOf', local) / None"""
        init = strip(init)
        if init.get("kind") != "InitListExpr" or len(init.get("inner", [])) != 2:
            return None
        x, y = strip(init["inner"][0]), strip_casts(init["inner"][1])
        if not (x.get("kind") == "CXXMemberCallExpr" and y.get("kind") == "CXXMemberCallExpr" and len(x["inner"]) == 1 and len(y["inner"]) == 1
                and x["inner"][0].get("name") == "size" and y["inner"][0].get("name") == "data"):
            return None
        ox, oy = ref(x["inner"][0]["inner"][0]), ref(y["inner"][0]["inner"][0])
        if ox != oy or ox[1] is None:
            return None
        if ox[0] == "ParmVarDecl" and ox[1] in pidx:
            return "param", pidx[ox[1]]
        if ox[0] == "VarDecl":
            return "local", ox[1]
        return None

    def arg_shape(self, m, a, base, pidx, locs, refs, arr, st, call):
        n = strip(a)
        k = n.get("kind")
        qt = n.get("type", {}).get("qualType", "")
        # status conversion
        if a.get("type", {}).get("qualType", "") == "llb_rule_status_kind_t" or qt == "llb_rule_status_kind_t":
            sp = [i for i, p in enumerate(m["params"]) if "StatusKind" in p["type"]["qualType"]]
            if st is not None and len(sp) == 1 and st.get(call["id"]) == "ok":
                return "(.statusOf %d)" % sp[0]
            return ".other"
        if k == "MemberExpr" and n.get("name") == "context":
            b = strip(n["inner"][0])
            if self.same_base(b, base) and b.get("type", {}).get("qualType") == base.get("type", {}).get("qualType"):
                return ".ownContext"
            # delegate->cAPIDelegate.context with delegate = static_cast<CAPIBuildEngineDelegate*>(ti.delegate())
            if b.get("kind") == "MemberExpr" and b.get("name") == "cAPIDelegate" and "llb_buildengine_delegate_t" in b.get("type", {}).get("qualType", ""):
                dk, nm = ref(b["inner"][0])
                v = locs.get(nm) if dk == "VarDecl" else None
                if v is not None and v.get("inner") and len(refs.get(nm, [])) == 1:
                    init = strip(v["inner"][0])
                    if init.get("kind") == "CXXStaticCastExpr" and "CAPIBuildEngineDelegate *" in init["type"]["qualType"]:
                        c = strip(init["inner"][0])
                        if c.get("kind") == "CXXMemberCallExpr" and c["inner"][0].get("name") == "delegate" and len(c["inner"]) == 1:
                            dk2, nm2 = ref(c["inner"][0]["inner"][0])
                            if dk2 == "ParmVarDecl" and "TaskInterface" in m["params"][pidx[nm2]]["type"]["qualType"]:
                                return ".engineContext"
            return ".other"
        if k == "MemberExpr" and n.get("name") == "engineContext" and is_this(n["inner"][0]):
            return ".engineContext" if self.engine_ctx_ok else ".other"
        if k == "UnaryOperator" and n.get("opcode") == "&":
            x = strip(n["inner"][0])
            if x.get("kind") == "DeclRefExpr":
                dk, nm = ref(x)
                v = locs.get(nm) if dk == "VarDecl" else None
                if v is not None and v["type"]["qualType"] == "llb_data_t":
                    sh = self.blob_init_shape(v["inner"][0], pidx, locs) if v.get("inner") else None
                    if sh and sh[0] == "param" and len(refs.get(nm, [])) == 1:
                        return "(.blobOf %d)" % sh[1]
                    return ".blobBad"
            if x.get("kind") == "MemberExpr" and x.get("type", {}).get("qualType") == "llb_rule_t":
                if self.same_base(x, base):
                    return ".ownRule"
                # &capiRule->rule of `CAPIRule* capiRule = new CAPIRule(key)`, returned as the rule
                dk, nm = ref(x["inner"][0])
                v = locs.get(nm) if dk == "VarDecl" else None
                if v is not None and v.get("inner") and x.get("name") == "rule":
                    init = strip(v["inner"][0])
                    if init.get("kind") == "CXXNewExpr" and len(init.get("inner", [])) == 1:
                        c = init["inner"][0]
                        cargs = [q for q in c.get("inner", []) if q.get("kind") != "CXXDefaultArgExpr"]
                        if c.get("kind") == "CXXConstructExpr" and "CAPIRule" in c["type"]["qualType"] and len(cargs) == 1:
                            dk2, nm2 = ref(cargs[0])
                            rets = [r for r in walk(m["body"]) if r.get("kind") == "ReturnStmt"]
                            returned = len(rets) == 1 and any(ref(q) == ("VarDecl", nm) for q in walk(rets[0]) if q.get("kind") == "DeclRefExpr")
                            if dk2 == "ParmVarDecl" and returned:
                                return "(.newRuleOut %d)" % pidx[nm2]
            return ".other"
        if k == "CXXConstructExpr" and qt == "llb_task_interface_t" and len(n.get("inner", [])) == 1:
            x = strip(n["inner"][0])
            if x.get("kind") == "UnaryOperator" and x.get("opcode") == "*":
                y = strip(x["inner"][0])
                if y.get("kind") == "CXXReinterpretCastExpr" and y["type"]["qualType"] == "llb_task_interface_t *":
                    z = strip(y["inner"][0])
                    if z.get("kind") == "UnaryOperator" and z.get("opcode") == "&":
                        dk, nm = ref(z["inner"][0])
                        if dk == "ParmVarDecl" and "TaskInterface" in m["params"][pidx[nm]]["type"]["qualType"]:
                            return "(.taskInterface %d)" % pidx[nm]
            return ".other"
        if k == "DeclRefExpr":
            dk, nm = ref(n)
            if dk == "ParmVarDecl":
                return "(.param %d)" % pidx[nm]
            return ".other"
        if k == "CXXMemberCallExpr" and len(n["inner"]) == 1 and n["inner"][0].get("kind") == "MemberExpr":
            me = n["inner"][0]
            obj = strip(me["inner"][0])
            if me.get("name") in ("data", "size") and obj.get("kind") == "DeclRefExpr" and arr is not None and ref(obj) == ("VarDecl", arr):
                return ".arrayData" if me["name"] == "data" else ".arrayCount"
            if me.get("name") == "c_str" and obj.get("kind") == "CXXMemberCallExpr" and len(obj["inner"]) == 1 and obj["inner"][0].get("name") == "str":
                dk, nm = ref(obj["inner"][0]["inner"][0])
                if dk == "ParmVarDecl":
                    return "(.cstrOf %d)" % pidx[nm]
        return ".other"

    # --- the array of keys handed to cycle_detected ---------------------------------------------------------
    def find_array(self, m, par, pidx, locs, refs):
        """the one `std::vector<llb_data_t>` local of the method: records how it is built in self.array and returns its name
        (so that `<name>.data()` / `<name>.size()` are recognised as arguments)"""
        vecs = [v for v in locs.values() if re.search(r"vector<llb_data_t_?>", v["type"]["qualType"])]
        if not vecs:
            return None
        if len(vecs) != 1 or self.array["method"] is not None:
            raise ExtractError("more than one llb_data_t vector (%s)" % m["ctor"])
        v = vecs[0]
        nm = v["name"]
        A = self.array
        A["method"] = m["ctor"]
        init = strip(v["inner"][0]) if v.get("inner") else None
        fresh = init is not None and init.get("kind") == "CXXConstructExpr" and not [q for q in init.get("inner", []) if q.get("kind") != "CXXDefaultArgExpr"]
        uses = {"reserve": [], "push_back": [], "data": [], "size": [], "?": []}
        for r in refs.get(nm, []):
            p = par.get(r["id"])
            while p is not None and p.get("kind") in WRAPPERS:
                p = par.get(p["id"])
            if p is not None and p.get("kind") == "MemberExpr" and p.get("name") in uses:
                uses[p["name"]].append(p)
            else:
                uses["?"].append(r)
        names = set()
        for n in walk(m["body"]):
            if n.get("kind") == "DeclRefExpr":
                names.add(n.get("referencedDecl", {}).get("name"))
            if n.get("kind") == "MemberExpr":
                names.add(n.get("name"))
        names = " ".join(x for x in names if x)
        if len(uses["push_back"]) != 1:
            return nm
        pb = par[uses["push_back"][0]["id"]]         # the CXXMemberCallExpr
        # element: { K.size(), K.data() } of one local K bound to `<rule>->key`
        arg = [q for q in pb["inner"][1:] if q.get("kind") != "CXXDefaultArgExpr"]
        sh = self.blob_init_shape(arg[0], pidx, locs) if len(arg) == 1 else None
        kbase = (None, None)
        if sh and sh[0] == "local":
            kv = locs.get(sh[1])
            ki = strip(kv["inner"][0]) if kv is not None and kv.get("inner") else {}
            if ki.get("kind") == "MemberExpr" and ki.get("name") == "key" and len(refs.get(sh[1], [])) == 2:
                A["elem"] = True
                kbase = ref(ki["inner"][0])
        # order: forward iff the vector starts empty, is appended to once per item by ONE range-for over a parameter itself
        # (K being the key of the loop's item), the loop body has no branch, and nothing else touches the vector
        if re.search(r"reverse|rbegin|rend", names):
            A["order"] = "reversed"
            return nm
        if not fresh or uses["?"] or len(uses["data"]) != 1 or len(uses["size"]) != 1 or re.search(r"insert|emplace|front|erase|pop_back|swap|rotate|sort", names):
            return nm
        loops, bad, cur = [], False, pb
        p = par.get(pb["id"])
        while p is not None and cur["id"] != m["body"]["id"]:
            k = p.get("kind")
            if k == "CXXForRangeStmt":
                if p["inner"][-1]["id"] != cur["id"]:
                    bad = True
                loops.append(p)
            elif k not in WRAPPERS and k != "CompoundStmt":
                bad = True
            cur, p = p, par.get(p["id"])
        if bad or len(loops) != 1:
            return nm
        kids = loops[0]["inner"]
        rng = [d for d in kids if d.get("kind") == "DeclStmt" and d["inner"][0].get("name", "").startswith("__range")]
        lv = kids[-2]["inner"][0] if kids[-2].get("kind") == "DeclStmt" else None
        src = ref(rng[0]["inner"][0]["inner"][0]) if rng and rng[0]["inner"][0].get("inner") else (None, None)
        stmts = kids[-1].get("inner", []) if kids[-1].get("kind") == "CompoundStmt" else [kids[-1]]
        branchy = any(x.get("kind") in ("IfStmt", "ContinueStmt", "BreakStmt", "ReturnStmt", "SwitchStmt", "ConditionalOperator", "ForStmt", "WhileStmt",
                                        "DoStmt", "GotoStmt", "CXXForRangeStmt") for s_ in stmts for x in walk(s_))
        if src[0] == "ParmVarDecl" and lv is not None and not (kids[0] or {}).get("kind") and not branchy and kbase == ("VarDecl", lv.get("name")):
            A["src"] = pidx[src[1]]
            A["order"] = "forward"
        return nm

    # --- Rule::StatusKind -> llb_rule_status_kind_t: interpret the method once per enumerator -----------------
    def status_table(self, m, calls):
        sp = [p for p in m["params"] if "StatusKind" in p["type"]["qualType"]]
        if len(sp) != 1 or not sp[0].get("name") or self.status_evaluated:
            return None
        self.status_evaluated = True
        pname = sp[0]["name"]
        status_calls = {}
        for c in calls:
            idx = [i for i, a in enumerate(c["inner"][1:]) if a.get("type", {}).get("qualType") == "llb_rule_status_kind_t"]
            if len(idx) == 1:
                status_calls[c["id"]] = idx[0] + 1
        result = {c: "ok" for c in status_calls}
        for name, val in self.eng_status:
            seen = []
            try:
                self.exec_stmt(m["body"], {pname: val}, status_calls, seen)
            except Unknown:
                for c in status_calls:
                    result[c] = "unknown"
                self.status_map = {n: None for n, _ in self.eng_status}
                return result
            except _Return:
                pass
            if len(seen) == 1:
                cands = [cn for cn, cv in self.c_status if cv == seen[0][1]]
                self.status_map[name] = cands[0] if len(cands) == 1 else None
            else:
                self.status_map[name] = None
        return result

    def exec_stmt(self, s, env, status_calls, seen):
        """returns 'break' when a break statement was executed, raises _Return on return"""
        k = s.get("kind")
        if k == "CompoundStmt":
            for c in s.get("inner", []):
                if self.exec_stmt(c, env, status_calls, seen) == "break":
                    return "break"
            return None
        if k in ("NullStmt",):
            return None
        if k == "BreakStmt":
            return "break"
        if k == "ReturnStmt":
            if s.get("inner"):
                self.exec_expr_stmt(s["inner"][0], env, status_calls, seen)
            raise _Return()
        if k == "IfStmt":
            if s.get("hasInit") or s.get("hasVar"):
                raise Unknown()
            inner = s["inner"]
            if self.eval(inner[0], env):
                return self.exec_stmt(inner[1], env, status_calls, seen)
            if len(inner) > 2:
                return self.exec_stmt(inner[2], env, status_calls, seen)
            return None
        if k == "DeclStmt":
            for v in s.get("inner", []):
                if v.get("kind") != "VarDecl":
                    raise Unknown()
                if v.get("inner"):
                    try:
                        env[v["name"]] = self.eval(v["inner"][0], env)
                    except Unknown:
                        env[v["name"]] = None
                else:
                    env[v["name"]] = None
            return None
        if k == "SwitchStmt":
            if s.get("hasInit") or s.get("hasVar") or len(s["inner"]) != 2 or s["inner"][1].get("kind") != "CompoundStmt":
                raise Unknown()
            v = self.eval(s["inner"][0], env)
            flat = []                  # (labels, statement)

            def unlabel(st, labels):
                while st.get("kind") in ("CaseStmt", "DefaultStmt"):
                    if st["kind"] == "CaseStmt":
                        if len(st["inner"]) != 2:
                            raise Unknown()
                        labels.append(self.eval(st["inner"][0], env))
                        st = st["inner"][1]
                    else:
                        labels.append("default")
                        st = st["inner"][0]
                return st
            for st in s["inner"][1].get("inner", []):
                labels = []
                body = unlabel(st, labels)
                flat.append((labels, body))
            start = next((i for i, (l, _) in enumerate(flat) if v in [x for x in l if x != "default"]), None)
            if start is None:
                start = next((i for i, (l, _) in enumerate(flat) if "default" in l), None)
            if start is None:
                return None
            for _, body in flat[start:]:
                if self.exec_stmt(body, env, status_calls, seen) == "break":
                    break
            return None
        if k in ("ForStmt", "WhileStmt", "DoStmt", "CXXForRangeStmt", "GotoStmt", "LabelStmt", "CXXTryStmt", "ContinueStmt"):
            raise Unknown()
        self.exec_expr_stmt(s, env, status_calls, seen)
        return None

    def exec_expr_stmt(self, e, env, status_calls, seen):
        n = strip(e)
        k = n.get("kind")
        if k == "CallExpr":
            if n["id"] in status_calls:
                seen.append((n["id"], self.eval(n["inner"][status_calls[n["id"]]], env)))
                return
            if self.callback_call(n):
                return                # another callback: no effect on the status value
            if ref(n["inner"][0])[1] in ("__assert_fail", "__assert_rtn", "abort"):
                raise _Return()
            raise Unknown()
        if k == "BinaryOperator" and n.get("opcode") == "=":
            dk, nm = ref(n["inner"][0])
            if dk == "VarDecl":
                env[nm] = self.eval(n["inner"][1], env)
                return
            raise Unknown()
        if k == "ConditionalOperator":         # assert(): (cond) ? void(0) : __assert_fail(...)
            c = self.eval(n["inner"][0], env)
            self.exec_expr_stmt(n["inner"][1 if c else 2], env, status_calls, seen)
            return
        if k in ("IntegerLiteral", "CXXBoolLiteralExpr"):
            return
        if any(x["id"] in status_calls for x in walk(n) if "id" in x):
            raise Unknown()            # the status call buried in an expression we do not interpret
        if any(x.get("kind") in ("BinaryOperator", "CompoundAssignOperator", "UnaryOperator", "CallExpr", "CXXMemberCallExpr", "CXXOperatorCallExpr")
               for x in walk(n)):
            raise Unknown()
        return

    def eval(self, e, env):
        n = e
        while n.get("kind") in WRAPPERS + CAST_KINDS and len(n.get("inner", [])) == 1:
            if n.get("castKind") == "PointerToBoolean" or n.get("castKind") == "MemberPointerToBoolean":
                if self.callback_field(n["inner"][0]):
                    return 1            # the callback under consideration is set
                raise Unknown()
            n = n["inner"][0]
        k = n.get("kind")
        if k == "IntegerLiteral":
            return int(n["value"])
        if k == "CXXBoolLiteralExpr":
            return 1 if n.get("value") else 0
        if k == "DeclRefExpr":
            d = n.get("referencedDecl", {})
            if d.get("kind") == "EnumConstantDecl":
                if d.get("name") in self.enum_val:
                    return self.enum_val[d["name"]]
                raise Unknown()
            if d.get("kind") in ("ParmVarDecl", "VarDecl") and env.get(d.get("name")) is not None:
                return env[d["name"]]
            raise Unknown()
        if k == "UnaryOperator":
            v = self.eval(n["inner"][0], env)
            op = n.get("opcode")
            if op == "!":
                return 0 if v else 1
            if op == "-":
                return -v
            if op == "+":
                return v
            if op == "~":
                return ~v
            raise Unknown()
        if k == "BinaryOperator":
            op = n.get("opcode")
            a = self.eval(n["inner"][0], env)
            if op == "&&":
                return 1 if (a and self.eval(n["inner"][1], env)) else 0
            if op == "||":
                return 1 if (a or self.eval(n["inner"][1], env)) else 0
            b = self.eval(n["inner"][1], env)
            table = {"==": lambda: int(a == b), "!=": lambda: int(a != b), "<": lambda: int(a < b), ">": lambda: int(a > b),
                     "<=": lambda: int(a <= b), ">=": lambda: int(a >= b), "+": lambda: a + b, "-": lambda: a - b, "*": lambda: a * b,
                     "^": lambda: a ^ b, "&": lambda: a & b, "|": lambda: a | b, "%": lambda: a % b if b else None,
                     "<<": lambda: a << b if 0 <= b < 64 else None, ">>": lambda: a >> b if 0 <= b < 64 else None}
            if op in table:
                r = table[op]()
                if r is None:
                    raise Unknown()
                return r
            raise Unknown()
        if k == "ConditionalOperator":
            return self.eval(n["inner"][1 if self.eval(n["inner"][0], env) else 2], env)
        raise Unknown()


class _Return(Exception):
    pass


def run_callbacks(src):
    C = Callbacks()
    eng = [n for n, _ in C.eng_status]
    cst = [n for n, _ in C.c_status]
    for n in eng + cst:
        if not re.fullmatch(r"[A-Za-z_]\w*", n):
            raise ExtractError("enumerator name %r" % n)
    L = ["namespace LLBuild.Generated.CApiCallbacks\n"]
    L.append("/-- the client's callbacks: function-pointer fields of `llb_rule_t` (rule_), `llb_buildengine_delegate_t` (engine_) and\n"
             "`llb_task_delegate_t` (task_) in core.h, declaration order -/")
    L.append("inductive Callback where\n" + "\n".join("  | %s" % c[0] for c in C.cbs) + "\n  deriving DecidableEq, Repr\n")
    L.append("def Callback.all : List Callback := [" + ", ".join("." + c[0] for c in C.cbs) + "]\n")
    L.append("def Callback.name : Callback → String\n" + "\n".join('  | .%s => "%s.%s"' % (c[0], c[1], c[2]) for c in C.cbs) + "\n")
    L.append("/-- number of parameters of the function-pointer type -/")
    L.append("def Callback.arity : Callback → Nat\n" + "\n".join("  | .%s => %d" % (c[0], c[3]) for c in C.cbs) + "\n")
    L.append("/-- methods (destructors: `_dtor`) with a body of the classes " + ", ".join(C.class_names) + " of Core-C-API.cpp, source order -/")
    L.append("inductive Method where\n" + "\n".join("  | %s" % m["ctor"] for m in C.methods) + "\n  deriving DecidableEq, Repr\n")
    L.append("def Method.all : List Method := [" + ", ".join("." + m["ctor"] for m in C.methods) + "]\n")
    L.append("def Method.name : Method → String\n" + "\n".join('  | .%s => "%s::%s"' % (m["ctor"], m["cls"], m["name"]) for m in C.methods) + "\n")
    L.append("def Method.paramNames : Method → List String\n" + "\n".join(
        "  | .%s => [%s]" % (m["ctor"], ", ".join('"%s"' % (p.get("name") or "") for p in m["params"])) for m in C.methods) + "\n")
    L.append("/-- `llbuild::core::Rule::StatusKind` (include/llbuild/Core/BuildEngine.h) -/")
    L.append("inductive EngineStatus where\n" + "\n".join("  | %s" % n for n in eng) + "\n  deriving DecidableEq, Repr\n")
    L.append("def EngineStatus.all : List EngineStatus := [" + ", ".join("." + n for n in eng) + "]\n")
    L.append("def EngineStatus.value : EngineStatus → Int\n" + "\n".join("  | .%s => %d" % (n, v) for n, v in C.eng_status) + "\n")
    L.append("/-- `llb_rule_status_kind_t` (core.h) -/")
    L.append("inductive CStatus where\n" + "\n".join("  | %s" % n for n in cst) + "\n  deriving DecidableEq, Repr\n")
    L.append("def CStatus.all : List CStatus := [" + ", ".join("." + n for n in cst) + "]\n")
    L.append("def CStatus.value : CStatus → Int\n" + "\n".join("  | .%s => %d" % (n, v) for n, v in C.c_status) + "\n")
    L.append("/-- what the client receives for each engine status: the method holding the `update_status` call is interpreted once per\n"
             "enumerator (casts keep the numeric value; `switch`, `if`, `?:`, locals are followed); `none` = no C enumerator with that value,\n"
             "no call, several calls, or code the extractor does not interpret -/")
    L.append("def statusMap : EngineStatus → Option CStatus\n" + "\n".join(
        "  | .%s => %s" % (n, "none" if C.status_map[n] is None else "some .%s" % C.status_map[n]) for n in eng) + "\n")
    L.append("/-- shape of an argument handed to the client (method parameters 0-based) -/")
    L.append("inductive CbArg where\n"
             "  | ownContext             -- `S.context` of the very struct S whose callback is called (rule.context / cAPIDelegate.context)\n"
             "  | engineContext          -- the engine delegate's `cAPIDelegate.context`: via `static_cast<CAPIBuildEngineDelegate*>(ti.delegate())`,\n"
             "                           -- or CAPIRule::engineContext, assigned exactly once (lookupRule, unconditionally) from it\n"
             "  | blobOf (i : Nat)       -- `&d` with `llb_data_t d{ p_i.size(), p_i.data() }`, d used nowhere else\n"
             "  | blobBad                -- `&d` with an `llb_data_t d` of any other shape\n"
             "  | ownRule                -- `&rule`: the llb_rule_t whose callback is called\n"
             "  | newRuleOut (i : Nat)   -- `&capiRule->rule` of `capiRule = new CAPIRule(p_i)`, which the method returns as the rule\n"
             "  | taskInterface (i : Nat)  -- `*reinterpret_cast<llb_task_interface_t*>(&p_i)`, p_i a TaskInterface\n"
             "  | param (i : Nat)        -- parameter i passed through\n"
             "  | statusOf (i : Nat)     -- the status conversion of p_i (see `statusMap`)\n"
             "  | arrayData              -- `keys.data()` of the vector described by `cycleArray`\n"
             "  | arrayCount             -- `keys.size()` of the same vector\n"
             "  | cstrOf (i : Nat)       -- `p_i.str().c_str()` (Twine rendered as a C string)\n"
             "  | other\n  deriving DecidableEq, Repr\n")
    L.append("/-- what the method does instead of the call when the callback is null -/")
    L.append("inductive Fallback where\n  | returnTrue | returnFalse | returnVoid   -- `if (!cb) return ...;` before the call\n"
             "  | skip                                   -- `if (cb) { call }`: nothing else happens\n  | other\n  deriving DecidableEq, Repr\n")
    L.append("inductive Guard where\n  | unguarded                              -- the call is reached on every execution of the method\n"
             "  | ifNull (cb : Callback) (fb : Fallback)   -- exactly one condition: a null check of `cb`\n"
             "  | other                                  -- any other condition / loop / early exit on the way to the call\n  deriving DecidableEq, Repr\n")
    L.append("/-- what happens to the value the client returns -/")
    L.append("inductive Ret where\n  | void          -- the callback returns void\n  | passThrough   -- `return cb(...);`\n"
             "  | castPtr       -- `return (T*) cb(...);` (one pointer bit-cast)\n  | negated | combined | dropped | other\n  deriving DecidableEq, Repr\n")
    L.append("structure Site where\n  callback : Callback\n  guard : Guard\n  args : List CbArg\n  ret : Ret\n  deriving DecidableEq, Repr\n")
    L.append("/-- client callback calls made by each method, in source order -/")
    L.append("def sitesOf : Method → List Site\n" + "\n".join(
        "  | .%s => [%s]" % (m["ctor"], ", ".join("⟨.%s, %s, [%s], .%s⟩" % (s["cb"], s["guard"], ", ".join(s["args"]), s["ret"]) for s in m["sites"]))
        for m in C.methods) + "\n")
    L.append("/-- parameters (0-based) never referenced in the body (unnamed ones included) -/")
    L.append("def unusedMethodParams : Method → List Nat\n" + "\n".join("  | .%s => [%s]" % (m["ctor"], ", ".join(map(str, m["unused"]))) for m in C.methods) + "\n")
    L.append("/-- number of `llb_data_t{...}` initialisers in each method -/")
    L.append("def outBlobsIn : Method → Nat\n" + "\n".join("  | .%s => %d" % (m["ctor"], m["nblobs"]) for m in C.methods) + "\n")
    nexp = 0
    for o in ast("llb_buildengine_"):
        nexp += sum(1 for n in walk(o) if n.get("kind") == "InitListExpr" and "llb_data_t" in n.get("type", {}).get("qualType", "")
                    and "[" not in n["type"]["qualType"])
    L.append("/-- the same count over the exported `llb_buildengine_*` functions -/")
    L.append("def outBlobsInExported : Nat := %d\n" % nexp)
    L.append("inductive Order where\n  | forward    -- one range-for over the parameter itself, appending one element per item, nothing else touches the vector\n"
             "  | reversed   -- reverse / rbegin / rend appear\n  | other\n  deriving DecidableEq, Repr\n")
    L.append("/-- how the `std::vector<llb_data_t>` passed as (`arrayData`, `arrayCount`) is built -/")
    L.append("structure ArrayShape where\n  method : Option Method\n  srcParam : Option Nat   -- the parameter iterated over\n  order : Order\n"
             "  elemIsKeyBlob : Bool    -- each element is `{ K.size(), K.data() }` with `K = item->key` of the loop's item\n  deriving DecidableEq, Repr\n")
    A = C.array
    L.append("def cycleArray : ArrayShape := ⟨%s, %s, .%s, %s⟩\n" % (
        "none" if A["method"] is None else "some .%s" % A["method"], "none" if A["src"] is None else "some %d" % A["src"], A["order"],
        "true" if A["elem"] else "false"))
    L.append("end LLBuild.Generated.CApiCallbacks")
    return write_generated("CApiCallbacks", "\n".join(L), [(SRC, src), (HDR, read(HDR)), ("include/llbuild/Core/BuildEngine.h", read("include/llbuild/Core/BuildEngine.h"))])



def run():
    _AST_CACHE.clear()
    prefetch(["llb_buildengine_", "CAPI", "StatusKind", "llb_rule_", "llb_buildengine_delegate_t_", "llb_task_delegate_t_",
              "llb_task_create", "llb_data_destroy"])
    src = read(SRC)
    fns = []
    for o in ast("llb_buildengine_"):
        if o.get("kind") == "FunctionDecl" and any(c.get("kind") == "CompoundStmt" for c in o.get("inner", [])):
            f = Fn(o)
            f.collect_calls()
            fns.append(f)
    names = [f.name for f in fns]
    if len(set(names)) != len(names) or not names:
        raise ExtractError("function list: %r" % names)
    # every declaration of the header must have a definition here, and vice versa
    hdr = strip_comments(read(HDR))
    declared = re.findall(r"\b(llb_buildengine_\w+)\s*\(", hdr)
    if sorted(set(declared)) != sorted(names):
        raise ExtractError("core.h declares %r, Core-C-API.cpp defines %r" % (sorted(set(declared)), sorted(names)))
    callees = []
    for f in fns:
        for c in f.calls:
            if c[0] not in callees:
                callees.append(c[0])
    # blobs handed to the client anywhere in the file: llb_data_t{ X.size(), X.data() }
    outs = []
    for filt in ("CAPI", "llb_buildengine_"):
        for o in ast(filt):
            for n in walk(o):
                if n.get("kind") == "InitListExpr" and "llb_data_t" in n.get("type", {}).get("qualType", "") and "[" not in n["type"]["qualType"]:
                    a = n.get("inner", [])
                    ok = False
                    if len(a) == 2:
                        x, y = strip(a[0]), strip(a[1])
                        while y.get("kind") == "CStyleCastExpr":
                            y = strip(y["inner"][0])
                        if x.get("kind") == "CXXMemberCallExpr" and y.get("kind") == "CXXMemberCallExpr" \
                                and x["inner"][0].get("name") == "size" and y["inner"][0].get("name") == "data":
                            ox, oy = ref(x["inner"][0]["inner"][0]), ref(y["inner"][0]["inner"][0])
                            ok = ox == oy and ox[1] is not None
                    line = n.get("range", {}).get("begin", {}).get("line") or n.get("range", {}).get("begin", {}).get("expansionLoc", {}).get("line")
                    key = (n["id"],)
                    if key not in [o_[0] for o_ in outs]:
                        outs.append((key, ok))
    if not outs:
        raise ExtractError("no llb_data_t initialisers found")

    def ctor(n):
        return n.replace("llb_buildengine_", "")
    L = ["namespace LLBuild.Generated.CApiForward\n"]
    L.append("/-- exported `llb_buildengine_*` functions (prefix dropped), in definition order -/")
    L.append("inductive CFn where\n" + "\n".join("  | %s" % ctor(n) for n in names) + "\n  deriving DecidableEq, Repr\n")
    L.append("def CFn.all : List CFn := [" + ", ".join("." + ctor(n) for n in names) + "]\n")
    L.append("def CFn.name : CFn → String\n" + "\n".join('  | .%s => "%s"' % (ctor(n), n) for n in names) + "\n")
    L.append("/-- engine entry points the functions call -/")
    L.append("inductive Callee where\n" + "\n".join("  | %s" % c for c in callees) + "\n  deriving DecidableEq, Repr\n")
    L.append("/-- how the object of a member call is obtained -/")
    L.append("inductive Recv where\n  | ofParam (i : Nat)   -- from the i-th C parameter (cast of the handle)\n  | none\n  deriving DecidableEq, Repr\n")
    L.append("/-- shape of an argument of an engine call, in terms of the C parameters (0-based) -/")
    L.append("inductive Arg where\n"
             "  | param (i : Nat)        -- parameter i passed through\n"
             "  | keyOf (i : Nat)        -- std::string((char*)p_i->data, p_i->length)\n"
             "  | keyMixed (i j : Nat)   -- data of p_i with the length of p_j\n"
             "  | cstrOf (i : Nat)       -- std::string((char*)p_i->data): length found by strlen\n"
             "  | bytesCopyOf (i : Nat)  -- vector(p_i->length) filled by memcpy(p_i->data, p_i->length), moved\n"
             "  | constBool (b : Bool)\n"
             "  | resultOf (c : Nat)     -- the value returned by the c-th engine call of the same function\n"
             "  | addrLocal              -- address of a local (error string)\n"
             "  | localVar\n"
             "  | other\n  deriving DecidableEq, Repr\n")
    L.append("structure Call where\n  callee : Callee\n  recv : Recv\n  args : List Arg\n  deriving DecidableEq, Repr\n")
    L.append("/-- engine calls made by each function, in source order -/")
    L.append("def calls : CFn → List Call\n" + "\n".join(
        "  | .%s => [%s]" % (ctor(f.name), ", ".join("⟨.%s, %s, [%s]⟩" % (c[0], c[1], ", ".join(c[2])) for c in f.calls)) for f in fns) + "\n")
    L.append("/-- parameters (0-based) never referenced in the body -/")
    L.append("def unusedParams : CFn → List Nat\n" + "\n".join("  | .%s => [%s]" % (ctor(f.name), ", ".join(map(str, f.unused()))) for f in fns) + "\n")
    L.append("def paramNames : CFn → List String\n" + "\n".join(
        "  | .%s => [%s]" % (ctor(f.name), ", ".join('"%s"' % p for p, _ in f.params)) for f in fns) + "\n")
    L.append("/-- parameters of type `const llb_data_t*` (byte blobs coming from the client) -/")
    L.append("def dataParams : CFn → List Nat\n" + "\n".join(
        "  | .%s => [%s]" % (ctor(f.name), ", ".join(str(i) for i, (_, t) in enumerate(f.params) if re.fullmatch(r"const llb_data_t \*", t))) for f in fns) + "\n")
    L.append("/-- every `llb_data_t{...}` the library builds for the client: is it `{X.size(), X.data()}` of one object X? -/")
    L.append("def outBlobsSizeData : List Bool := [" + ", ".join("true" if ok else "false" for _, ok in outs) + "]\n")
    L.append("end LLBuild.Generated.CApiForward")
    info = write_generated("CApiForward", "\n".join(L), [(SRC, src), (HDR, read(HDR))])
    info["also"] = [run_callbacks(src)]
    return info


if __name__ == "__main__":
    print(run())
