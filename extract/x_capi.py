"""X9 (C20): the forwarding functions of products/libllbuild/Core-C-API.cpp -> Generated/CApiForward.lean

clang-14 JSON AST.  For every `llb_buildengine_*` function with a body: its parameters, every call it makes on the
engine (`TaskInterface::*`, `BuildEngine::*`, free functions of namespace llbuild) with the *shape* of each argument
(which C parameter lands in which slot, and how byte blobs are turned into keys/values), and the parameters that are
never referenced.  For the whole file: every `llb_data_t{...}` the library hands to the client (shape: size()/data() of
one object).  Fails closed on any shape it does not know (`Arg.other` makes the theorems false; unknown AST => ExtractError).
"""
import json, os, re, subprocess
from xcommon import *

SRC = "products/libllbuild/Core-C-API.cpp"
HDR = "products/libllbuild/include/llbuild/core.h"
ENGINE_TYPES = ("TaskInterface", "BuildEngine")
WRAPPERS = ("ImplicitCastExpr", "MaterializeTemporaryExpr", "CXXBindTemporaryExpr", "ExprWithCleanups", "ParenExpr",
            "CXXFunctionalCastExpr", "ConstantExpr")


def ast(filt):
    cmd = ["clang++-14", "-std=gnu++17", "-fsyntax-only", "-fno-rtti", "-include", os.path.join(REPO, "include/libstdc++14-workaround.h"),
           "-I" + os.path.join(REPO, "include"), "-I" + os.path.join(REPO, "products/libllbuild/include"),
           "-Xclang", "-ast-dump=json", "-Xclang", "-ast-dump-filter=" + filt, os.path.join(REPO, SRC)]
    p = subprocess.run(cmd, stdout=subprocess.PIPE, stderr=subprocess.PIPE)
    if p.returncode != 0:
        raise ExtractError("clang failed: " + p.stderr.decode()[-400:])
    txt = p.stdout.decode()
    dec = json.JSONDecoder()
    i, objs = 0, []
    while i < len(txt):
        while i < len(txt) and txt[i].isspace():
            i += 1
        if i >= len(txt):
            break
        if txt.startswith("Dumping", i):
            i = txt.index("\n", i)
            continue
        o, i = dec.raw_decode(txt, i)
        objs.append(o)
    return objs


def walk(n):
    yield n
    for c in n.get("inner", []) or []:
        yield from walk(c)


def strip(n):
    while n.get("kind") in WRAPPERS and len(n.get("inner", [])) == 1:
        n = n["inner"][0]
    # elidable copy/move construction of the same type
    if n.get("kind") == "CXXConstructExpr" and len(n.get("inner", [])) == 1 and n.get("elidable"):
        return strip(n["inner"][0])
    return n


def ref(n):
    """(kind, name) if n is (after stripping) a reference to a declaration"""
    n = strip(n)
    if n.get("kind") == "DeclRefExpr":
        d = n.get("referencedDecl", {})
        return d.get("kind"), d.get("name")
    return None, None


def member_of_param(n, field):
    """name of parameter p if n is `p-><field>` (possibly under casts), else None"""
    n = strip(n)
    while n.get("kind") == "CStyleCastExpr":
        n = strip(n["inner"][0])
    if n.get("kind") == "MemberExpr" and n.get("name") == field:
        k, nm = ref(n["inner"][0])
        if k == "ParmVarDecl":
            return nm
    return None


class Fn:
    def __init__(self, decl):
        self.name = decl["name"]
        self.params = [(c["name"], c["type"]["qualType"]) for c in decl["inner"] if c["kind"] == "ParmVarDecl"]
        self.pidx = {n: i for i, (n, _) in enumerate(self.params)}
        self.body = [c for c in decl["inner"] if c["kind"] == "CompoundStmt"][0]
        self.locals = {}
        for n in walk(self.body):
            if n.get("kind") == "VarDecl":
                self.locals[n["name"]] = n
        self.calls = []       # (callee, receiver-shape, [arg-shapes], node id)
        self.memcpys = []     # (dst local, src param, len param)
        for n in walk(self.body):
            if n.get("kind") == "CallExpr":
                k, nm = ref(n["inner"][0])
                if nm == "memcpy" and len(n["inner"]) == 4:
                    d = strip(n["inner"][1])
                    dst = None
                    if d.get("kind") == "CXXMemberCallExpr" and d["inner"][0].get("name") == "data":
                        dst = ref(d["inner"][0]["inner"][0])[1]
                    self.memcpys.append((dst, member_of_param(n["inner"][2], "data"), member_of_param(n["inner"][3], "length")))

    def local_shape(self, name):
        v = self.locals.get(name)
        if v is None or not v.get("inner"):
            return "(.localVar)"
        init = strip(v["inner"][0])
        # byte vector of param->length filled by memcpy(param->data, param->length)
        if init.get("kind") == "CXXConstructExpr" and "vector<" in init["type"]["qualType"]:
            p = member_of_param(init["inner"][0], "length") if init.get("inner") else None
            if p is not None and (name, p, p) in self.memcpys and len([m for m in self.memcpys if m[0] == name]) == 1:
                return "(.bytesCopyOf %d)" % self.pidx[p]
            return ".other"
        # result of an engine call (unique_ptr<BuildDB> db(createSQLiteBuildDB(...)))
        for n in walk(v):
            for i, c in enumerate(self.calls):
                if n.get("id") == c[3]:
                    return "(.resultOf %d)" % i
        if init.get("kind") == "CXXConstructExpr" and not init.get("inner"):
            return "(.localVar)"
        return ".other"

    def shape(self, n):
        n = strip(n)
        k = n.get("kind")
        if k == "DeclRefExpr":
            dk, nm = ref(n)
            if dk == "ParmVarDecl":
                return "(.param %d)" % self.pidx[nm]
            if dk == "VarDecl":
                return self.local_shape(nm)
        if k in ("CXXTemporaryObjectExpr", "CXXConstructExpr") and re.search(r"\b(KeyType|std::string|basic_string)\b", n["type"]["qualType"]):
            args = [a for a in n.get("inner", []) if a.get("kind") != "CXXDefaultArgExpr"]
            if len(args) == 2:
                p, q = member_of_param(args[0], "data"), member_of_param(args[1], "length")
                if p is not None and q is not None:
                    return "(.keyOf %d)" % self.pidx[p] if p == q else "(.keyMixed %d %d)" % (self.pidx[p], self.pidx[q])
            if len(args) == 1:
                p = member_of_param(args[0], "data")
                if p is not None:
                    return "(.cstrOf %d)" % self.pidx[p]
            return ".other"
        # conversions that keep (pointer, length) / ownership: StringRef(const std::string&), unique_ptr(unique_ptr&&)
        if k == "CXXConstructExpr" and re.search(r"\b(llvm::StringRef|std::unique_ptr<)", n["type"]["qualType"]):
            args = [a for a in n.get("inner", []) if a.get("kind") != "CXXDefaultArgExpr"]
            if len(args) == 1:
                return self.shape(args[0])
        if k == "CallExpr":
            fk, fn = ref(n["inner"][0])
            if fn == "move" and len(n["inner"]) == 2:
                return self.shape(n["inner"][1])
        if k == "CXXBoolLiteralExpr":
            return "(.constBool %s)" % ("true" if n.get("value") else "false")
        if k == "UnaryOperator" and n.get("opcode") == "&":
            dk, nm = ref(n["inner"][0])
            if dk == "VarDecl":
                return "(.addrLocal)"
        return ".other"

    def receiver(self, base):
        """how the object a member function is called on is obtained from the parameters"""
        for n in walk(base):
            dk, nm = ref(n)
            if dk == "ParmVarDecl":
                return "(.ofParam %d)" % self.pidx[nm]
            if dk == "VarDecl":
                v = self.locals.get(nm)
                if v is not None:
                    for m in walk(v):
                        dk2, nm2 = ref(m)
                        if dk2 == "ParmVarDecl":
                            return "(.ofParam %d)" % self.pidx[nm2]
        return ".none"

    def collect_calls(self):
        for n in walk(self.body):
            if n.get("kind") == "CXXMemberCallExpr":
                me = n["inner"][0]
                if me.get("kind") != "MemberExpr":
                    continue
                bt = me["inner"][0].get("type", {}).get("qualType", "")
                if any(t in bt for t in ENGINE_TYPES):
                    self.calls.append([me["name"], self.receiver(me["inner"][0]), None, n["id"], n])
            elif n.get("kind") == "CallExpr":
                fk, fn = ref(n["inner"][0])
                if fk == "FunctionDecl" and fn in ("createSQLiteBuildDB",):
                    self.calls.append([fn, ".none", None, n["id"], n])
        for c in self.calls:
            args = [a for a in c[4]["inner"][1:]]
            c[2] = [self.shape(a) for a in args if a.get("kind") != "CXXDefaultArgExpr"]

    def unused(self):
        seen = set()
        for n in walk(self.body):
            dk, nm = ref(n) if n.get("kind") == "DeclRefExpr" else (None, None)
            if dk == "ParmVarDecl":
                seen.add(nm)
        return [i for i, (nm, _) in enumerate(self.params) if nm not in seen]


def run():
    src = read(SRC)
    fns = []
    for o in ast("llb_buildengine_"):
        if o.get("kind") == "FunctionDecl" and any(c.get("kind") == "CompoundStmt" for c in o.get("inner", [])):
            f = Fn(o)
            f.collect_calls()
            fns.append(f)
    names = [f.name for f in fns]
    if len(set(names)) != len(names) or not names:
        raise ExtractError("function list: %r" % names)
    # every declaration of the header must have a definition here, and vice versa
    hdr = strip_comments(read(HDR))
    declared = re.findall(r"\b(llb_buildengine_\w+)\s*\(", hdr)
    if sorted(set(declared)) != sorted(names):
        raise ExtractError("core.h declares %r, Core-C-API.cpp defines %r" % (sorted(set(declared)), sorted(names)))
    callees = []
    for f in fns:
        for c in f.calls:
            if c[0] not in callees:
                callees.append(c[0])
    # blobs handed to the client anywhere in the file: llb_data_t{ X.size(), X.data() }
    outs = []
    for filt in ("CAPI", "llb_buildengine_"):
        for o in ast(filt):
            for n in walk(o):
                if n.get("kind") == "InitListExpr" and "llb_data_t" in n.get("type", {}).get("qualType", "") and "[" not in n["type"]["qualType"]:
                    a = n.get("inner", [])
                    ok = False
                    if len(a) == 2:
                        x, y = strip(a[0]), strip(a[1])
                        while y.get("kind") == "CStyleCastExpr":
                            y = strip(y["inner"][0])
                        if x.get("kind") == "CXXMemberCallExpr" and y.get("kind") == "CXXMemberCallExpr" \
                                and x["inner"][0].get("name") == "size" and y["inner"][0].get("name") == "data":
                            ox, oy = ref(x["inner"][0]["inner"][0]), ref(y["inner"][0]["inner"][0])
                            ok = ox == oy and ox[1] is not None
                    line = n.get("range", {}).get("begin", {}).get("line") or n.get("range", {}).get("begin", {}).get("expansionLoc", {}).get("line")
                    key = (n["id"],)
                    if key not in [o_[0] for o_ in outs]:
                        outs.append((key, ok))
    if not outs:
        raise ExtractError("no llb_data_t initialisers found")

    def ctor(n):
        return n.replace("llb_buildengine_", "")
    L = ["namespace LLBuild.Generated.CApiForward\n"]
    L.append("/-- exported `llb_buildengine_*` functions (prefix dropped), in definition order -/")
    L.append("inductive CFn where\n" + "\n".join("  | %s" % ctor(n) for n in names) + "\n  deriving DecidableEq, Repr\n")
    L.append("def CFn.all : List CFn := [" + ", ".join("." + ctor(n) for n in names) + "]\n")
    L.append("def CFn.name : CFn → String\n" + "\n".join('  | .%s => "%s"' % (ctor(n), n) for n in names) + "\n")
    L.append("/-- engine entry points the functions call -/")
    L.append("inductive Callee where\n" + "\n".join("  | %s" % c for c in callees) + "\n  deriving DecidableEq, Repr\n")
    L.append("/-- how the object of a member call is obtained -/")
    L.append("inductive Recv where\n  | ofParam (i : Nat)   -- from the i-th C parameter (cast of the handle)\n  | none\n  deriving DecidableEq, Repr\n")
    L.append("/-- shape of an argument of an engine call, in terms of the C parameters (0-based) -/")
    L.append("inductive Arg where\n"
             "  | param (i : Nat)        -- parameter i passed through\n"
             "  | keyOf (i : Nat)        -- std::string((char*)p_i->data, p_i->length)\n"
             "  | keyMixed (i j : Nat)   -- data of p_i with the length of p_j\n"
             "  | cstrOf (i : Nat)       -- std::string((char*)p_i->data): length found by strlen\n"
             "  | bytesCopyOf (i : Nat)  -- vector(p_i->length) filled by memcpy(p_i->data, p_i->length), moved\n"
             "  | constBool (b : Bool)\n"
             "  | resultOf (c : Nat)     -- the value returned by the c-th engine call of the same function\n"
             "  | addrLocal              -- address of a local (error string)\n"
             "  | localVar\n"
             "  | other\n  deriving DecidableEq, Repr\n")
    L.append("structure Call where\n  callee : Callee\n  recv : Recv\n  args : List Arg\n  deriving DecidableEq, Repr\n")
    L.append("/-- engine calls made by each function, in source order -/")
    L.append("def calls : CFn → List Call\n" + "\n".join(
        "  | .%s => [%s]" % (ctor(f.name), ", ".join("⟨.%s, %s, [%s]⟩" % (c[0], c[1], ", ".join(c[2])) for c in f.calls)) for f in fns) + "\n")
    L.append("/-- parameters (0-based) never referenced in the body -/")
    L.append("def unusedParams : CFn → List Nat\n" + "\n".join("  | .%s => [%s]" % (ctor(f.name), ", ".join(map(str, f.unused()))) for f in fns) + "\n")
    L.append("def paramNames : CFn → List String\n" + "\n".join(
        "  | .%s => [%s]" % (ctor(f.name), ", ".join('"%s"' % p for p, _ in f.params)) for f in fns) + "\n")
    L.append("/-- parameters of type `const llb_data_t*` (byte blobs coming from the client) -/")
    L.append("def dataParams : CFn → List Nat\n" + "\n".join(
        "  | .%s => [%s]" % (ctor(f.name), ", ".join(str(i) for i, (_, t) in enumerate(f.params) if re.fullmatch(r"const llb_data_t \*", t))) for f in fns) + "\n")
    L.append("/-- every `llb_data_t{...}` the library builds for the client: is it `{X.size(), X.data()}` of one object X? -/")
    L.append("def outBlobsSizeData : List Bool := [" + ", ".join("true" if ok else "false" for _, ok in outs) + "]\n")
    L.append("end LLBuild.Generated.CApiForward")
    return write_generated("CApiForward", "\n".join(L), [(SRC, src), (HDR, read(HDR))])


if __name__ == "__main__":
    print(run())
