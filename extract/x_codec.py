"""X1+X2+X3 for C15: the wire format of BuildValue / BuildKey / FileInfo / StringList / BinaryCoding
-> lean/LLBuild/Generated/Codec.lean

Extracted (everything else in the codec model is hand-written and corresponded):
  BinaryCoding.h   byte order of write(uint16/32/64) and read16/32/64 as lists of bit shifts
  Hashing.h        BinaryCodingTraits<CommandSignature>: the single uint64 field
  FileInfo.h       struct fields + widths; flattened leaf order of BinaryCodingTraits<FileInfo> (through
                   FileTimestamp / FileChecksum), encode and decode separately; fields compared by
                   FileInfo::operator== and tested by isMissing()
  StringList.h     width of the size field, terminator byte, encode/decode order
  BuildValue.h     Kind enumerators + ordinals, width of the kind tag, kindHas* predicates as kind sets,
                   the guarded step order of toData() and of the decoding constructor, width of numOutputInfos,
                   the kind produced for an empty buffer
  BuildKey.h       Kind enumerators, kindForIdentifier / identifierForKind switch tables, the layout each
                   make* constructor uses (name only / name + raw bytes / name + StringList), width of nameSize
Every shape that is not recognised raises ExtractError (the check then reports a broken tie, never a pass).
"""
import re
from xcommon import *

WIDTH = {"uint8_t": 1, "uint16_t": 2, "uint32_t": 4, "uint64_t": 8}


def norm(s):
    return re.sub(r"\s+", " ", s).strip()


def statements(body):
    """split a block body into top-level statements (text up to ';' at depth 0, or a braced construct)"""
    out, cur, depth_p, i, n = [], "", 0, 0, len(body)
    while i < n:
        c = body[i]
        if c == "(":
            depth_p += 1
        elif c == ")":
            depth_p -= 1
        if c == "{" and depth_p == 0:
            blk, j = find_block(body, i)
            cur += "{" + blk + "}"
            i = j
            # `if (...) {...}` / `for (...) {...}` end a statement, unless an `else` follows
            if re.match(r"\s*else\b", body[i:]):
                continue
            out.append(norm(cur))
            cur = ""
            continue
        cur += c
        if c == ";" and depth_p == 0:
            out.append(norm(cur))
            cur = ""
        i += 1
    if norm(cur):
        raise ExtractError("dangling text in block: %r" % norm(cur))
    return [s for s in out if s and s != ";"]


def unbrace(s):
    s = s.strip()
    if s.startswith("{") and s.endswith("}"):
        return s[1:-1]
    return s


def struct_body(src, name):
    m = re.search(r"\b(?:struct|class)\s+" + name + r"\s*\{", src)
    if not m:
        raise ExtractError("struct %s not found" % name)
    body, _ = find_block(src, m.end() - 1)
    return body


def traits_body(src, tyregex):
    m = re.search(r"template\s*<\s*>\s*struct\s+(?:basic::)?BinaryCodingTraits\s*<\s*" + tyregex + r"\s*>\s*\{", src)
    if not m:
        raise ExtractError("BinaryCodingTraits<%s> not found" % tyregex)
    body, _ = find_block(src, m.end() - 1)
    return body


# ------------------------------------------------------------------------------------------------
# BinaryCoding.h
# ------------------------------------------------------------------------------------------------
def x_binarycoding():
    rel = "include/llbuild/Basic/BinaryCoding.h"
    src = strip_comments(read(rel))
    enc = struct_body(src, "BinaryEncoder")
    dec = struct_body(src, "BinaryDecoder")
    # writers: write(uintN_t value) { write(uintM_t(value >> a)); write(uintM_t(value >> b)); }
    wr = {}
    b8 = norm(function_body(enc, r"void\s+write\s*\(\s*uint8_t\s+value\s*\)"))
    if b8 != "encdata.push_back(value);":
        raise ExtractError("write(uint8_t): unexpected body %r" % b8)
    bb = norm(function_body(enc, r"void\s+write\s*\(\s*bool\s+value\s*\)"))
    if bb != "encdata.push_back(uint8_t(value));":
        raise ExtractError("write(bool): unexpected body %r" % bb)
    wr[1] = [0]
    for n, ty in ((2, "uint16_t"), (4, "uint32_t"), (8, "uint64_t")):
        body = function_body(enc, r"void\s+write\s*\(\s*" + ty + r"\s+value\s*\)")
        shifts = []
        for st in statements(body):
            m = re.fullmatch(r"write\s*\(\s*(uint\d+_t)\s*\(\s*value\s*>>\s*(\d+)\s*\)\s*\)\s*;", st)
            if not m or WIDTH[m.group(1)] * 2 != n:
                raise ExtractError("write(%s): unexpected statement %r" % (ty, st))
            sub, sh = WIDTH[m.group(1)], int(m.group(2))
            shifts += [sh + s for s in wr[sub]]
        wr[n] = shifts
    # readers: uintN_t readN() { uintN_t result = readM(); result |= uintN_t(readM()) << s; return result; }
    rd = {}
    r8 = norm(function_body(dec, r"uint8_t\s+read8\s*\(\s*\)"))
    if r8 != "return data[pos++];":
        raise ExtractError("read8: unexpected body %r" % r8)
    rd[1] = [0]
    for n, ty in ((2, "uint16_t"), (4, "uint32_t"), (8, "uint64_t")):
        body = function_body(dec, ty + r"\s+read%d\s*\(\s*\)" % (n * 8))
        sts = statements(body)
        half = n * 4
        if len(sts) < 2 or sts[-1] != "return result;":
            raise ExtractError("read%d: unexpected shape" % (n * 8))
        m0 = re.fullmatch(ty + r" result = read%d\(\);" % half, sts[0])
        if not m0:
            raise ExtractError("read%d: unexpected first statement %r" % (n * 8, sts[0]))
        shifts = list(rd[n // 2])
        for st in sts[1:-1]:
            m = re.fullmatch(r"result \|= " + ty + r"\(read%d\(\)\) << (\d+);" % half, st)
            if not m:
                raise ExtractError("read%d: unexpected statement %r" % (n * 8, st))
            shifts += [int(m.group(1)) + s for s in rd[n // 2]]
        rd[n] = shifts
    # public read(uintN_t&) forwards to readN
    for n, ty in ((1, "uint8_t"), (2, "uint16_t"), (4, "uint32_t"), (8, "uint64_t")):
        b = norm(function_body(dec, r"void\s+read\s*\(\s*" + ty + r"\s*&\s*value\s*\)"))
        if b != "value = read%d();" % (n * 8):
            raise ExtractError("read(%s&): unexpected body %r" % (ty, b))
    # writeBytes / readBytes / the StringRef trait / isEmpty
    wb = norm(function_body(enc, r"void\s+writeBytes\s*\(\s*StringRef\s+bytes\s*\)"))
    if wb != "encdata.insert(encdata.end(), bytes.begin(), bytes.end());":
        raise ExtractError("writeBytes: unexpected body")
    rb = norm(function_body(dec, r"void\s+readBytes\s*\(\s*size_t\s+count\s*,\s*StringRef\s*&\s*value\s*\)"))
    if rb != "assert(pos + count <= data.size()); value = StringRef(data.begin() + pos, count); pos += count;":
        raise ExtractError("readBytes: unexpected body %r" % rb)
    ie = norm(function_body(dec, r"bool\s+isEmpty\s*\(\s*\)\s*const"))
    if ie != "return pos == data.size();":
        raise ExtractError("isEmpty: unexpected body")
    sr = norm(traits_body(src, "StringRef"))
    if sr != "static inline void encode(const StringRef& value, BinaryEncoder& coder) { coder.writeBytes(value); }":
        raise ExtractError("BinaryCodingTraits<StringRef>: unexpected body %r" % sr)
    lean = ["/-- bit shift of each byte `write(uintN_t)` emits, in emission order (BinaryCoding.h, expanded) -/"]
    for n in (2, 4, 8):
        lean.append("def write%dShifts : List Nat := %s" % (n * 8, wr[n]))
    lean.append("/-- bit shift applied to each byte consumed by `readN()`, in consumption order -/")
    for n in (2, 4, 8):
        lean.append("def read%dShifts : List Nat := %s" % (n * 8, rd[n]))
    return "\n".join(lean), (rel, enc + dec)


# ------------------------------------------------------------------------------------------------
# generic: a traits encode/decode body as a list of value.<member> in order
# ------------------------------------------------------------------------------------------------
def traits_members(body, ty, which):
    verb = "write" if which == "encode" else "read"
    coder = "BinaryEncoder" if which == "encode" else "BinaryDecoder"
    cq = "const " if which == "encode" else ""
    fb = function_body(body, r"static\s+inline\s+void\s+" + which + r"\s*\(\s*" + cq + ty + r"\s*&\s*value\s*,\s*" + coder + r"\s*&\s*coder\s*\)")
    out = []
    for st in statements(fb):
        m = re.fullmatch(r"coder\." + verb + r"\(value\.(\w+)\);", st)
        if m:
            out.append(("member", m.group(1), 1))
            continue
        m = re.fullmatch(r"for\s*\(\s*int i\s*=\s*0;\s*i\s*<\s*(\d+);\s*i\+\+\s*\)\s*\{\s*coder\." + verb + r"\(value\.(\w+)\[i\]\);\s*\}", st)
        if m:
            out.append(("array", m.group(2), int(m.group(1))))
            continue
        raise ExtractError("%s::%s: unexpected statement %r" % (ty, which, st))
    return out


def struct_fields(body):
    """data member declarations `type name[;|= init;]` / `type name[N] = {..};` at the top level of a struct"""
    fields = {}
    # drop member functions: remove every (...) {...} construct
    txt = body
    res = []
    i = 0
    # top-level statement split tolerant of function definitions
    depth = 0
    cur = ""
    while i < len(txt):
        c = txt[i]
        if c == "{":
            blk, j = find_block(txt, i)
            cur += "{}"
            i = j
            if "(" in cur:          # a function definition: discard
                cur = ""
            continue
        if c == ";":
            res.append(norm(cur))
            cur = ""
        else:
            cur += c
        i += 1
    for st in res:
        if "(" in st or st.startswith(("static", "using", "typedef", "friend", "public", "private")):
            continue
        st = re.sub(r"^(public|private)\s*:\s*", "", st)
        m = re.fullmatch(r"([\w:]+)\s+(\w+)(\[(\d+)\])?(\s*=\s*.*)?", st)
        if not m:
            raise ExtractError("unrecognised member declaration %r" % st)
        fields[m.group(2)] = (m.group(1), int(m.group(4)) if m.group(4) else None)
    return fields


# ------------------------------------------------------------------------------------------------
# FileInfo.h (+ Hashing.h)
# ------------------------------------------------------------------------------------------------
def x_fileinfo():
    rel = "include/llbuild/Basic/FileInfo.h"
    src = strip_comments(read(rel))
    st = {n: struct_fields(struct_body(src, n)) for n in ("FileTimestamp", "FileChecksum", "FileInfo")}
    tr = {n: traits_body(src, n) for n in ("FileTimestamp", "FileChecksum", "FileInfo")}

    def flatten(ty, which, prefix=""):
        out = []
        for kind, mem, cnt in traits_members(tr[ty], ty, which):
            if mem not in st[ty]:
                raise ExtractError("%s has no member %s" % (ty, mem))
            mty, arr = st[ty][mem]
            if kind == "array":
                if arr != cnt or mty not in WIDTH:
                    raise ExtractError("%s.%s: loop bound %s does not match the declared array %s[%s]" % (ty, mem, cnt, mty, arr))
                out.append(("array", prefix + mem, cnt, WIDTH[mty]))
            elif mty in WIDTH and arr is None:
                out.append(("scalar", prefix + mem, 1, WIDTH[mty]))
            elif mty in st and arr is None:
                out += flatten(mty, which, prefix + mem + "_")
            else:
                raise ExtractError("%s.%s: unsupported member type %s" % (ty, mem, mty))
        return out
    enc, dec = flatten("FileInfo", "encode"), flatten("FileInfo", "decode")
    # the leaf set of the struct itself
    def leaves(ty, prefix=""):
        out = []
        for mem, (mty, arr) in st[ty].items():
            if mty in WIDTH:
                out.append(prefix + mem)
            elif mty in st:
                out += leaves(mty, prefix + mem + "_")
            else:
                raise ExtractError("%s.%s: unsupported member type %s" % (ty, mem, mty))
        return out
    allf = leaves("FileInfo")
    expect = ["device", "inode", "mode", "size", "modTime_seconds", "modTime_nanoseconds", "checksum_bytes"]
    if allf != expect:
        raise ExtractError("FileInfo leaf fields changed: %s (the model structure FileInfo has %s)" % (allf, expect))

    # operator== : conjunction of  x == rhs.x
    def eq_fields(ty, prefix=""):
        body = norm(function_body(struct_body(src, ty), r"bool\s+operator==\s*\(\s*const\s+" + ty + r"\s*&\s*rhs\s*\)\s*const"))
        m = re.fullmatch(r"return \(?(.*?)\)?;", body)
        if not m:
            raise ExtractError("%s::operator==: unexpected shape %r" % (ty, body))
        expr = m.group(1)
        mm = re.fullmatch(r"\(?memcmp\((\w+), rhs\.(\w+), sizeof\((\w+)\)\) == 0\)?", expr)
        if mm and mm.group(1) == mm.group(2) == mm.group(3):
            return [prefix + mm.group(1)]
        out = []
        for c in expr.split("&&"):
            if ty == "FileInfo" and re.fullmatch(r"\(?\s*isMissing\(\) == rhs\.isMissing\(\)\s*\)?", c.strip()):
                eq_missing.append(True)     # the missing record never equals an existing object
                continue
            m2 = re.fullmatch(r"\(?\s*(\w+) == rhs\.(\w+)\s*\)?", c.strip())
            if not m2 or m2.group(1) != m2.group(2) or m2.group(1) not in st[ty]:
                raise ExtractError("%s::operator==: unexpected conjunct %r" % (ty, c))
            mty, arr = st[ty][m2.group(1)]
            if mty in WIDTH and arr is None:
                out.append(prefix + m2.group(1))
            elif mty in st:
                out += eq_fields(mty, prefix + m2.group(1) + "_")
            else:
                raise ExtractError("%s::operator==: unsupported member %s" % (ty, m2.group(1)))
        return out
    eq_missing = []
    eqf = eq_fields("FileInfo")
    mb = norm(function_body(struct_body(src, "FileInfo"), r"bool\s+isMissing\s*\(\s*\)\s*const"))
    m = re.fullmatch(r"return \((.*)\);", mb)
    if not m:
        raise ExtractError("isMissing: unexpected shape")
    miss = []
    for c in m.group(1).split("&&"):
        m2 = re.fullmatch(r"([\w.]+) == 0", c.strip())
        if not m2:
            raise ExtractError("isMissing: unexpected conjunct %r" % c)
        miss.append(m2.group(1).replace(".", "_"))

    def leaf(l):
        k, name, cnt, w = l
        return "(.%s .%s %d)" % (k, name, w if k == "scalar" else cnt) if False else \
            ("FILeaf.scalar .%s %d" % (name, w) if k == "scalar" else "FILeaf.array .%s %d %d" % (name, cnt, w))
    lean = ["/-- leaf fields of `struct FileInfo` (nested structs flattened with `_`) -/",
            "inductive FIField where", "  | " + " | ".join(allf), "  deriving DecidableEq, Repr", "",
            "/-- one leaf write/read of `BinaryCodingTraits<FileInfo>`: a scalar of `width` bytes, or `count` elements of `width` bytes -/",
            "inductive FILeaf where", "  | scalar (f : FIField) (width : Nat)", "  | array (f : FIField) (count : Nat) (width : Nat)",
            "  deriving DecidableEq, Repr", "",
            "def fileInfoEncodeLayout : List FILeaf := [" + ", ".join(leaf(l) for l in enc) + "]",
            "def fileInfoDecodeLayout : List FILeaf := [" + ", ".join(leaf(l) for l in dec) + "]",
            "/-- fields compared by `FileInfo::operator==` (through `FileTimestamp::operator==`, `FileChecksum::operator==`) -/",
            "def fileInfoEqFields : List FIField := [" + ", ".join("." + f for f in eqf) + "]",
            "/-- fields tested against zero by `FileInfo::isMissing()` -/",
            "def fileInfoMissingFields : List FIField := [" + ", ".join("." + f for f in miss) + "]",
            "/-- `operator==` also requires `isMissing() == rhs.isMissing()` -/",
            "def fileInfoEqChecksMissing : Bool := %s" % ("true" if eq_missing else "false")]
    # CommandSignature
    relh = "include/llbuild/Basic/Hashing.h"
    hs = strip_comments(read(relh))
    cs = struct_fields(struct_body(hs, "CommandSignature"))
    if list(cs.keys()) != ["value"] or cs["value"][0] not in WIDTH:
        raise ExtractError("CommandSignature: unexpected members %s" % cs)
    ctr = traits_body(hs, "CommandSignature")
    e, d = traits_members(ctr, "CommandSignature", "encode"), traits_members(ctr, "CommandSignature", "decode")
    if e != [("member", "value", 1)] or d != e:
        raise ExtractError("BinaryCodingTraits<CommandSignature>: unexpected shape")
    lean += ["/-- width of the single field `BinaryCodingTraits<CommandSignature>` writes and reads -/",
             "def commandSignatureWidth : Nat := %d" % WIDTH[cs["value"][0]]]
    return "\n".join(lean), (rel, "".join(tr.values()) + "".join(struct_body(src, n) for n in st)), (relh, ctr)


# ------------------------------------------------------------------------------------------------
# StringList.h
# ------------------------------------------------------------------------------------------------
def x_stringlist():
    rel = "include/llbuild/Basic/StringList.h"
    src = strip_comments(read(rel))
    body = struct_body(src, "StringList")
    m = re.search(r"\b(uint\d+_t)\s+size\s*=\s*0\s*;", body)
    if not m:
        raise ExtractError("StringList::size declaration not found")
    w = WIDTH[m.group(1)]
    enc = norm(function_body(body, r"void\s+encode\s*\(\s*BinaryEncoder\s*&\s*coder\s*\)\s*const"))
    if enc != "coder.write(size); coder.writeBytes(StringRef(contents, size));":
        raise ExtractError("StringList::encode: unexpected body %r" % enc)
    dec = norm(function_body(body, r"StringList\s*\(\s*basic::BinaryDecoder\s*&\s*decoder\s*\)"))
    if dec != "decoder.read(size); StringRef contents; decoder.readBytes(size, contents); this->contents = new char[size]; memcpy(this->contents, contents.data(), contents.size());":
        raise ExtractError("StringList(BinaryDecoder&): unexpected body %r" % dec)
    ctor = norm(function_body(body, r"explicit\s+StringList\s*\(\s*const\s+ArrayRef<StringType>\s+values\s*\)"))
    want = ("for (auto value: values) { size += value.size() + 1; } char* p = nullptr; contents = p = new char[size + 1]; "
            "for (auto value: values) { assert(value.find('\\0') == StringRef::npos); memcpy(p, value.data(), value.size()); "
            "p += value.size(); *p++ = '\\0'; } *p = '\\0';")
    if ctor != want:
        raise ExtractError("StringList(ArrayRef): unexpected body %r" % ctor)
    one = norm(function_body(body, r"explicit\s+StringList\s*\(\s*StringRef\s+value\s*\)"))
    want1 = ("size = value.size() + 1; contents = new char[size]; assert(value.find('\\0') == StringRef::npos); "
             "memcpy(contents, value.data(), value.size()); contents[size - 1] = '\\0';")
    if one != want1:
        raise ExtractError("StringList(StringRef): unexpected body %r" % one)
    gv = norm(function_body(body, r"std::vector<StringRef>\s+getValues\s*\(\s*\)\s*const"))
    wantg = ("std::vector<StringRef> result; for (uint64_t i = 0; i < size;) { auto value = StringRef(&contents[i]); "
             "assert(i + value.size() <= size); result.push_back(value); i += value.size() + 1; } return result;")
    if gv != wantg:
        raise ExtractError("StringList::getValues: unexpected body %r" % gv)
    tb = norm(traits_body(src, "StringList"))
    if "value.encode(coder);" not in tb or "value = StringList(coder);" not in tb:
        raise ExtractError("BinaryCodingTraits<StringList>: unexpected body")
    lean = ["/-- width of `StringList::size` as written by `encode` / read by the decoding constructor -/",
            "def stringListSizeWidth : Nat := %d" % w,
            "/-- the byte appended after every value by the packing constructors and searched for by `getValues` -/",
            "def stringListTerminator : UInt8 := 0"]
    return "\n".join(lean), (rel, body)


# ------------------------------------------------------------------------------------------------
# BuildValue.h
# ------------------------------------------------------------------------------------------------
def parse_enum(body, what):
    names, ords, nxt = [], [], 0
    for item in body.split(","):
        item = item.strip()
        if not item:
            continue
        m = re.fullmatch(r"(\w+)(\s*=\s*(\d+))?", item)
        if not m:
            raise ExtractError("%s: unexpected enumerator %r" % (what, item))
        if m.group(3) is not None:
            nxt = int(m.group(3))
        names.append(m.group(1))
        ords.append(nxt)
        nxt += 1
    if len(set(names)) != len(names):
        raise ExtractError("%s: duplicate enumerator" % what)
    return names, ords


def x_buildvalue():
    rel = "include/llbuild/BuildSystem/BuildValue.h"
    src = strip_comments(read(rel))
    cls = struct_body(src, "BuildValue")
    m = re.search(r"enum\s+class\s+Kind\s*:\s*(\w+)\s*\{", cls)
    if not m:
        raise ExtractError("BuildValue::Kind not found")
    ebody, _ = find_block(cls, m.end() - 1)
    names, ords = parse_enum(ebody, "BuildValue::Kind")
    # isX() predicates
    isx = {}
    for mm in re.finditer(r"bool\s+(is\w+)\s*\(\s*\)\s*const\s*\{", cls):
        b, _ = find_block(cls, mm.end() - 1)
        b = norm(b)
        m2 = re.fullmatch(r"return (.*);", b)
        if not m2:
            continue
        ks = []
        ok = True
        for d in m2.group(1).split("||"):
            m3 = re.fullmatch(r"kind == Kind::(\w+)", d.strip())
            if not m3:
                ok = False
                break
            ks.append(m3.group(1))
        if ok:
            isx[mm.group(1)] = ks

    def kindset(fn):
        b = norm(function_body(cls, r"bool\s+" + fn + r"\s*\(\s*\)\s*const"))
        m2 = re.fullmatch(r"return (.*);", b)
        if not m2:
            raise ExtractError("%s: unexpected shape" % fn)
        ks = []
        for d in m2.group(1).split("||"):
            d = d.strip()
            m3 = re.fullmatch(r"kind == Kind::(\w+)", d)
            m4 = re.fullmatch(r"(is\w+)\(\)", d)
            if m3:
                ks.append(m3.group(1))
            elif m4 and m4.group(1) in isx:
                ks += isx[m4.group(1)]
            else:
                raise ExtractError("%s: unexpected disjunct %r" % (fn, d))
        for k in ks:
            if k not in names:
                raise ExtractError("%s: unknown kind %s" % (fn, k))
        return ks
    sets = {fn: kindset(fn) for fn in ("kindHasSignature", "kindHasOutputInfo", "kindHasStringList")}
    # member widths
    mem = struct_fields_subset(cls, {"numOutputInfos": None, "signature": None, "kind": None, "stringValues": None})
    if mem["numOutputInfos"] not in WIDTH:
        raise ExtractError("numOutputInfos: unexpected type %s" % mem["numOutputInfos"])
    if mem["signature"] != "basic::CommandSignature" or mem["stringValues"] != "basic::StringList" or mem["kind"] != "Kind":
        raise ExtractError("BuildValue members: unexpected types %s" % mem)
    # kind tag traits
    tb = traits_body(src, r"buildsystem::BuildValue::Kind")
    e = norm(function_body(tb, r"static\s+inline\s+void\s+encode\s*\(\s*const\s+Kind\s*&\s*value\s*,\s*BinaryEncoder\s*&\s*coder\s*\)"))
    d = norm(function_body(tb, r"static\s+inline\s+void\s+decode\s*\(\s*Kind\s*&\s*value\s*,\s*BinaryDecoder\s*&\s*coder\s*\)"))
    me = re.fullmatch(r"(uint\d+_t) tmp = \1\(value\); assert\(value == Kind\(tmp\)\); coder\.write\(tmp\);", e)
    md = re.fullmatch(r"(uint\d+_t) tmp; coder\.read\(tmp\); value = Kind\(tmp\);", d)
    if not me or not md:
        raise ExtractError("BinaryCodingTraits<BuildValue::Kind>: unexpected shape %r / %r" % (e, d))
    tagw_e, tagw_d = WIDTH[me.group(1)], WIDTH[md.group(1)]
    # toData
    GUARD = {"kindHasSignature": "hasSignature", "kindHasOutputInfo": "hasOutputInfo", "kindHasStringList": "hasStringList"}
    loop = r"for \(uint32_t i = 0; i != numOutputInfos; \+\+i\) \{ coder\.%s\(getNthOutputInfo\(i\)\); \}"

    def steps(sts, verb):
        out = []
        for st in sts:
            m1 = re.fullmatch(r"coder\.%s\((\w+)\);" % verb, st)
            if m1:
                out.append(("always", action_of(m1.group(1))))
                continue
            m2 = re.fullmatch(r"if \((\w+)\(\)\)\s*(.*)", st)
            if not m2 or m2.group(1) not in GUARD:
                raise ExtractError("unexpected statement %r" % st)
            inner = [norm(s) for s in statements(unbrace(m2.group(2)))]
            g = GUARD[m2.group(1)]
            if len(inner) == 1 and re.fullmatch(r"coder\.%s\((\w+)\);" % verb, inner[0]):
                out.append((g, action_of(re.fullmatch(r"coder\.%s\((\w+)\);" % verb, inner[0]).group(1))))
            elif verb == "write" and len(inner) == 2 and inner[0] == "coder.write(numOutputInfos);" and re.fullmatch(loop % "write", inner[1]):
                out.append((g, "outputInfos"))
            elif verb == "read" and len(inner) == 3 and inner[0] == "coder.read(numOutputInfos);" and \
                    inner[1] == "if (numOutputInfos > 1) { valueData.asOutputInfos = new FileInfo[numOutputInfos]; }" and re.fullmatch(loop % "read", inner[2]):
                out.append((g, "outputInfos"))
            elif verb == "write" and inner == ["stringValues.encode(coder);"]:
                out.append((g, "stringList"))
            elif verb == "read" and inner == ["stringValues = basic::StringList(coder);"]:
                out.append((g, "stringList"))
            else:
                raise ExtractError("unexpected guarded block %r" % st)
        return out

    def action_of(member):
        if member not in ("kind", "signature"):
            raise ExtractError("unexpected coded member %s" % member)
        return member
    td = statements(function_body(src, r"inline\s+core::ValueType\s+buildsystem::BuildValue::toData\s*\(\s*\)\s*const"))
    if td[0] != "basic::BinaryEncoder coder;" or td[-1] != "return coder.contents();":
        raise ExtractError("toData: unexpected frame")
    enc = steps(td[1:-1], "write")
    fd = statements(function_body(src, r"inline\s+buildsystem::BuildValue::BuildValue\s*\(\s*basic::BinaryDecoder\s*&\s*coder\s*\)"))
    m0 = re.fullmatch(r"if \(coder\.isEmpty\(\)\) \{ kind = BuildValue::Kind::(\w+); return; \}", fd[0])
    if not m0 or fd[-1] != "coder.finish();" or m0.group(1) not in names:
        raise ExtractError("BuildValue(BinaryDecoder&): unexpected frame")
    dec = steps(fd[1:-1], "read")
    fdata = norm(function_body(cls, r"static\s+BuildValue\s+fromData\s*\(\s*const\s+core::ValueType\s*&\s*value\s*\)"))
    if fdata != "basic::BinaryDecoder decoder(StringRef((char*)value.data(), value.size())); return BuildValue(decoder);":
        raise ExtractError("fromData: unexpected body")
    # make* functions: which parts each public constructor function accepts for its kind
    shape = {}
    for mm in re.finditer(r"static\s+BuildValue\s+(make\w+)\s*\(([^)]*)\)\s*\{", cls):
        body, _ = find_block(cls, mm.end() - 1)
        sts = [st for st in statements(body) if not st.startswith("assert(")]
        m1 = re.fullmatch(r"return BuildValue\(Kind::(\w+)((?:, \w+)*)\);", sts[0]) if len(sts) == 1 else None
        if not m1 or mm.group(1) != "make" + m1.group(1) or m1.group(1) in shape:
            raise ExtractError("%s: unexpected body %r" % (mm.group(1), sts))
        args = [a for a in m1.group(2).split(", ") if a]
        sh = {"sig": False, "infos": False, "strs": False}
        pnames = []
        for prm in [norm(x) for x in mm.group(2).split(",") if norm(x)]:
            mp = re.fullmatch(r"(.*\S)\s+(\w+)", prm)
            ty, nm = mp.group(1), mp.group(2)
            pnames.append(nm)
            if ty in ("FileInfo", "ArrayRef<FileInfo>"):
                sh["infos"] = True
            elif ty == "basic::CommandSignature":
                sh["sig"] = True
            elif ty == "ArrayRef<std::string>":
                sh["strs"] = True
            else:
                raise ExtractError("%s: unexpected parameter type %r" % (mm.group(1), ty))
        if args != pnames:
            raise ExtractError("%s: parameters %s are not passed on as %s" % (mm.group(1), pnames, args))
        shape[m1.group(1)] = sh
    if set(shape) != set(names):
        raise ExtractError("make* functions do not cover the kinds: %s" % sorted(set(names) ^ set(shape)))
    lean = ["/-- `BuildValue::Kind` enumerators (underlying type %s) -/" % m.group(1),
            "inductive VKind where", "  | " + " | ".join(names), "  deriving DecidableEq, Repr", "",
            "def VKind.all : List VKind := [" + ", ".join("." + n for n in names) + "]",
            "def VKind.ord : VKind → Nat"] + ["  | .%s => %d" % (n, o) for n, o in zip(names, ords)] + \
           ["/-- `Kind(tmp)`: the enumerator with that ordinal, if any -/", "def VKind.ofOrd? : Nat → Option VKind"] + \
           ["  | %d => some .%s" % (o, n) for n, o in zip(names, ords)] + ["  | _ => none"] + \
           ["def VKind.name : VKind → String"] + ["  | .%s => \"%s\"" % (n, n) for n in names]
    for fn in ("kindHasSignature", "kindHasOutputInfo", "kindHasStringList"):
        lean += ["/-- kinds for which `BuildValue::%s()` is true -/" % fn,
                 "def %sKinds : List VKind := [" % fn + ", ".join("." + k for k in sets[fn]) + "]"]
    lean += ["/-- which parts the public `make<Kind>` function of a kind accepts (signature, file infos, string values) -/",
             "structure MakeShape where", "  sig : Bool", "  infos : Bool", "  strs : Bool", "  deriving DecidableEq, Repr",
             "def makeShape : VKind → MakeShape"] + \
        ["  | .%s => ⟨%s, %s, %s⟩" % (n, *(str(shape[n][f]).lower() for f in ("sig", "infos", "strs"))) for n in names]
    lean += ["inductive VGuard where", "  | always | hasSignature | hasOutputInfo | hasStringList", "  deriving DecidableEq, Repr",
             "inductive VAction where", "  | kind | signature | outputInfos | stringList", "  deriving DecidableEq, Repr",
             "/-- guarded steps of `BuildValue::toData()` in source order -/",
             "def toDataSteps : List (VGuard × VAction) := [" + ", ".join("(.%s, .%s)" % s for s in enc) + "]",
             "/-- guarded steps of `BuildValue(BinaryDecoder&)` in source order (after the empty-buffer test) -/",
             "def fromDataSteps : List (VGuard × VAction) := [" + ", ".join("(.%s, .%s)" % s for s in dec) + "]",
             "/-- the kind an empty buffer decodes to -/",
             "def emptyDecodesAs : VKind := .%s" % m0.group(1),
             "def kindTagWriteWidth : Nat := %d" % tagw_e, "def kindTagReadWidth : Nat := %d" % tagw_d,
             "/-- width of `numOutputInfos` (written before and read before the output infos) -/",
             "def numOutputInfosWidth : Nat := %d" % WIDTH[mem["numOutputInfos"]]]
    used = function_body(src, r"inline\s+core::ValueType\s+buildsystem::BuildValue::toData\s*\(\s*\)\s*const") + \
        function_body(src, r"inline\s+buildsystem::BuildValue::BuildValue\s*\(\s*basic::BinaryDecoder\s*&\s*coder\s*\)") + ebody + tb
    return "\n".join(lean), (rel, used), names


def struct_fields_subset(cls, want):
    out = {}
    for name in want:
        m = re.search(r"(?:^|[;{}:])\s*([\w:]+)\s+" + name + r"\s*(=\s*[^;]*)?;", cls)
        if not m:
            raise ExtractError("member %s not found" % name)
        out[name] = m.group(1)
    return out


# ------------------------------------------------------------------------------------------------
# BuildKey.h
# ------------------------------------------------------------------------------------------------
def x_buildkey():
    rel = "include/llbuild/BuildSystem/BuildKey.h"
    src = strip_comments(read(rel))
    cls = struct_body(src, "BuildKey")
    m = re.search(r"enum\s+class\s+Kind\s*\{", cls)
    if not m:
        raise ExtractError("BuildKey::Kind not found")
    ebody, _ = find_block(cls, m.end() - 1)
    names, ords = parse_enum(ebody, "BuildKey::Kind")
    if "Unknown" not in names:
        raise ExtractError("BuildKey::Kind has no Unknown")
    kfi = function_body(cls, r"static\s+Kind\s+kindForIdentifier\s*\(\s*char\s+identifier\s*\)")
    msw = re.fullmatch(r"switch \(identifier\) \{(.*)\}", norm(kfi))
    if not msw:
        raise ExtractError("kindForIdentifier: unexpected shape")
    c2k, default = [], None
    for part in [p.strip() for p in msw.group(1).split(";") if p.strip()]:
        m1 = re.fullmatch(r"case '((?:[^'\\]|\\.)+)': return Kind::(\w+)", part)
        m2 = re.fullmatch(r"default: return Kind::(\w+)", part)
        if m1:
            bs = c_string_bytes(m1.group(1))
            if len(bs) != 1 or m1.group(2) not in names:
                raise ExtractError("kindForIdentifier: bad case %r" % part)
            c2k.append((bs[0], m1.group(2)))
        elif m2:
            default = m2.group(1)
        else:
            raise ExtractError("kindForIdentifier: unexpected text %r" % part)
    if default != "Unknown" or len({c for c, _ in c2k}) != len(c2k):
        raise ExtractError("kindForIdentifier: default/duplicate case problem")
    ifk = function_body(cls, r"static\s+char\s+identifierForKind\s*\(\s*Kind\s+kind\s*\)")
    msw = re.fullmatch(r"switch \(kind\) \{(.*)\}", norm(ifk))
    if not msw:
        raise ExtractError("identifierForKind: unexpected shape")
    k2c = {}
    for part in [p.strip() for p in msw.group(1).split(";") if p.strip()]:
        m1 = re.fullmatch(r"case Kind::(\w+): return '((?:[^'\\]|\\.)+)'", part)
        if not m1 or m1.group(1) in k2c or m1.group(1) not in names:
            raise ExtractError("identifierForKind: unexpected text %r" % part)
        bs = c_string_bytes(m1.group(2))
        if len(bs) != 1:
            raise ExtractError("identifierForKind: bad char")
        k2c[m1.group(1)] = bs[0]
    if set(k2c) != set(names):
        raise ExtractError("identifierForKind does not cover every kind")
    # constructors: the two private layouts
    c2 = norm(function_body(cls, r"BuildKey\s*\(\s*char\s+kindCode\s*,\s*StringRef\s+str\s*\)"))
    if c2 != "std::string encodedKey; encodedKey.reserve(1 + str.size()); encodedKey.push_back(kindCode); encodedKey.append(str.begin(), str.end()); key = encodedKey;":
        raise ExtractError("BuildKey(char, StringRef): unexpected body %r" % c2)
    c3 = norm(function_body(cls, r"BuildKey\s*\(\s*char\s+kindCode\s*,\s*StringRef\s+name\s*,\s*const\s+BinaryEncodable\s*&\s*data\s*\)"))
    want3 = ("uint32_t nameSize = name.size(); basic::BinaryEncoder encoder; encoder.write(data); uint32_t dataSize = encoder.contents().size(); "
             "std::string encodedKey; encodedKey.resize(1 + sizeof(uint32_t) + nameSize + dataSize); uint32_t pos = 0; "
             "encodedKey[pos] = kindCode; pos += 1; memcpy(&encodedKey[pos], &nameSize, sizeof(uint32_t)); pos += sizeof(uint32_t); "
             "memcpy(&encodedKey[pos], name.data(), nameSize); pos += nameSize; memcpy(&encodedKey[pos], encoder.contents().data(), dataSize); "
             "pos += dataSize; assert(encodedKey.size() == pos); (void)pos; key = encodedKey;")
    if c3 != want3:
        raise ExtractError("BuildKey(char, StringRef, data): unexpected body %r" % c3)
    # make* functions -> layout
    layout = {}
    for mm in re.finditer(r"static\s+BuildKey\s+(make\w+)\s*\(([^)]*)\)\s*\{", cls):
        body, _ = find_block(cls, mm.end() - 1)
        body = norm(body)
        params = [norm(p) for p in mm.group(2).split(",")]
        m1 = re.fullmatch(r"return BuildKey\(identifierForKind\(Kind::(\w+)\), (.*)\);", body)
        if not m1:
            raise ExtractError("%s: unexpected body %r" % (mm.group(1), body))
        k, args = m1.group(1), [a.strip() for a in m1.group(2).split(",")]
        if mm.group(1) != "make" + k:
            raise ExtractError("%s builds kind %s" % (mm.group(1), k))
        ptypes = {}
        for p in params:
            mp = re.fullmatch(r"(.*?)\s*[&*]?\s*(\w+)", p)
            ptypes[mp.group(2)] = norm(p[:p.rfind(mp.group(2))])
        if len(args) == 1:
            if args[0] == "node->getName()" and ptypes.get("node") == "const Node*":
                lay = "nameOnly"
            elif ptypes.get(args[0]) == "StringRef":
                lay = "nameOnly"
            else:
                raise ExtractError("%s: unexpected argument %r" % (mm.group(1), args))
        elif len(args) == 2 and ptypes.get(args[0]) == "StringRef":
            t = ptypes.get(args[1])
            if t == "StringRef":
                lay = "nameBytes"
            elif t == "const basic::StringList&":
                lay = "nameStringList"
            else:
                raise ExtractError("%s: unexpected payload type %r" % (mm.group(1), t))
        else:
            raise ExtractError("%s: unexpected arguments %r" % (mm.group(1), args))
        if layout.get(k, lay) != lay:
            raise ExtractError("kind %s is built with two layouts" % k)
        layout[k] = lay
    if set(layout) != set(names) - {"Unknown"}:
        raise ExtractError("make* functions do not cover the kinds: %s" % sorted(set(names) - set(layout)))
    # accessors: which kinds each accessor is for, and its shape
    SIMPLE = "return StringRef(key.data()+1, key.size()-1);"
    NAME = "uint32_t nameSize; memcpy(&nameSize, &key.data()[1], sizeof(uint32_t)); return StringRef(&key.data()[1 + sizeof(uint32_t)], nameSize);"
    DATA = ("uint32_t nameSize; memcpy(&nameSize, &key.data()[1], sizeof(uint32_t)); uint32_t dataSize = key.size() - 1 - sizeof(uint32_t) - nameSize; "
            "return StringRef(&key.data()[1 + sizeof(uint32_t) + nameSize], dataSize);")
    acc = {}
    for mm in re.finditer(r"StringRef\s+(get\w+)\s*\(\s*\)\s*const\s*\{", cls):
        body, _ = find_block(cls, mm.end() - 1)
        body = norm(body)
        ma = re.fullmatch(r"assert\((.*?)\); (.*)", body)
        if not ma:
            raise ExtractError("%s: unexpected body" % mm.group(1))
        kinds = []
        for d in ma.group(1).split("||"):
            md = re.fullmatch(r"is(\w+)\(\)", d.strip())
            if not md or md.group(1) not in names:
                raise ExtractError("%s: unexpected assertion %r" % (mm.group(1), d))
            kinds.append(md.group(1))
        shape = {SIMPLE: "simple", NAME: "name", DATA: "data"}.get(ma.group(2))
        if shape is None:
            raise ExtractError("%s: unexpected accessor body %r" % (mm.group(1), ma.group(2)))
        acc[mm.group(1)] = (kinds, shape)
    for k, lay in layout.items():
        shapes = sorted(s for (ks, s) in acc.values() if k in ks)
        need = ["simple"] if lay == "nameOnly" else ["data", "name"]
        if shapes != need:
            raise ExtractError("kind %s (layout %s) has accessors of shapes %s" % (k, lay, shapes))
    gk = norm(function_body(cls, r"Kind\s+getKind\s*\(\s*\)\s*const"))
    if gk != "return kindForIdentifier(key.data()[0]);":
        raise ExtractError("getKind: unexpected body")
    sl = norm(function_body(cls, r"basic::StringList\s+getContentExclusionPatternsAsStringList\s*\(\s*\)\s*const"))
    if sl != "basic::BinaryDecoder decoder(getContentExclusionPatterns()); basic::StringList filters = basic::StringList(decoder); return filters;":
        raise ExtractError("getContentExclusionPatternsAsStringList: unexpected body")
    lean = ["/-- `BuildKey::Kind` enumerators -/", "inductive KKind where", "  | " + " | ".join(names), "  deriving DecidableEq, Repr", "",
            "def KKind.all : List KKind := [" + ", ".join("." + n for n in names) + "]",
            "def KKind.ord : KKind → Nat"] + ["  | .%s => %d" % (n, o) for n, o in zip(names, ords)] + \
           ["/-- `BuildKey::kindForIdentifier` -/", "def kindForIdentifier (c : UInt8) : KKind :="] + \
           ["  %s c = %d then .%s" % ("if" if i == 0 else "else if", c, k) for i, (c, k) in enumerate(c2k)] + ["  else .Unknown",
            "/-- `BuildKey::identifierForKind` -/", "def identifierForKind : KKind → UInt8"] + \
           ["  | .%s => %d" % (n, k2c[n]) for n in names] + \
           ["/-- which private constructor the `make*` function of a kind uses -/",
            "inductive KLayout where", "  | nameOnly | nameBytes | nameStringList | noMake", "  deriving DecidableEq, Repr",
            "def keyLayout : KKind → KLayout"] + ["  | .%s => .%s" % (n, layout.get(n, "noMake")) for n in names] + \
           ["/-- width of the native-endian `nameSize` prefix in the (code, length, name, payload) layout -/", "def keyNameSizeWidth : Nat := 4"]
    return "\n".join(lean), (rel, cls), names, ords


def run():
    bc, s1 = x_binarycoding()
    fi, s2, s3 = x_fileinfo()
    sl, s4 = x_stringlist()
    bv, s5, vnames = x_buildvalue()
    bk, s6, knames, kords = x_buildkey()
    lean = "namespace LLBuild.Generated.Codec\n\n" + "\n\n".join([bc, fi, sl, bv, bk]) + "\n\nend LLBuild.Generated.Codec\n"
    return write_generated("Codec", lean, [s1, s2, s3, s4, s5, s6])


if __name__ == "__main__":
    print(run())
