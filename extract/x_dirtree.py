"""C12 extractor: the hash_combine recipes of DirectoryTreeSignatureTask / DirectoryTreeStructureSignatureTask
(`inputsAvailable`), the request structure of their `start` / `provideValue`, and the filter / sort predicates of
`getContents` / `getFilteredContents`  ->  lean/LLBuild/Generated/DirTreeRecipe.lean.

The two `inputsAvailable` bodies are parsed with a small statement parser (comment-stripped source text); every
statement, argument and condition must be one of the shapes listed below, anything else raises ExtractError
(fail closed).  `start` / `provideValue` are compared, whitespace-normalised, against the shape the model
implements (child node requested for EVERY listed name; sub-signature requested iff the child value is an
existing input whose info is a directory; unfiltered vs filtered listing key chosen by `filters.isEmpty()`).
"""
import re
from xcommon import ExtractError, read, strip_comments, find_block, write_generated

SRC = "lib/BuildSystem/BuildSystem.cpp"

CLASSES = {
    "tree": dict(cls="DirectoryTreeSignatureTask", member="directorySignatureValue",
                 make="makeDirectoryTreeSignature", kind="DirectoryTreeSignature"),
    "struct": dict(cls="DirectoryTreeStructureSignatureTask", member="directoryStructureSignatureValue",
                   make="makeDirectoryTreeStructureSignature", kind="DirectoryTreeStructureSignature"),
}


def norm(s):
    s = re.sub(r"\s+", " ", s).strip()
    s = re.sub(r"\s*([(){};,:<>=!&|+\-*/\[\]])\s*", r"\1", s)
    return s


def class_body(src, cls):
    m = re.search(r"class\s+%s\s*:\s*public\s+Task\s*\{" % cls, src)
    if not m:
        raise ExtractError("class %s not found" % cls)
    body, _ = find_block(src, m.end() - 1)
    return body


def method_body(cbody, header_regex):
    ms = list(re.finditer(header_regex + r"\s*(?:override\s*)?\{", cbody, re.S))
    if len(ms) != 1:
        raise ExtractError("expected exactly one method matching %s, found %d" % (header_regex, len(ms)))
    body, _ = find_block(cbody, ms[0].end() - 1)
    return body


# ---------------------------------------------------------------------------------------------
# statement parser for inputsAvailable
# ---------------------------------------------------------------------------------------------
class P:
    def __init__(self, text, info):
        self.t = text
        self.i = 0
        self.info = info
        self.bind = {}          # local name -> 'dir' | 'child' | 'sub'
        self.init = None
        self.result = None
        self.root = []
        self.child = None

    def ws(self):
        while self.i < len(self.t) and self.t[self.i].isspace():
            self.i += 1

    def eof(self):
        self.ws()
        return self.i >= len(self.t)

    def until_semicolon(self):
        depth = 0
        j = self.i
        while j < len(self.t):
            c = self.t[j]
            if c in "([{":
                depth += 1
            elif c in ")]}":
                depth -= 1
            elif c == ";" and depth == 0:
                s = self.t[self.i:j]
                self.i = j + 1
                return s
            j += 1
        raise ExtractError("unterminated statement near: " + self.t[self.i:self.i + 60])

    def paren(self):
        self.ws()
        if self.t[self.i] != "(":
            raise ExtractError("expected ( near " + self.t[self.i:self.i + 40])
        depth = 0
        j = self.i
        while j < len(self.t):
            if self.t[j] == "(":
                depth += 1
            elif self.t[j] == ")":
                depth -= 1
                if depth == 0:
                    s = self.t[self.i + 1:j]
                    self.i = j + 1
                    return s
            j += 1
        raise ExtractError("unbalanced parenthesis")

    def block(self):
        self.ws()
        if self.t[self.i] != "{":
            raise ExtractError("expected { near " + self.t[self.i:self.i + 40])
        body, end = find_block(self.t, self.i)
        self.i = end
        return body

    def datum(self, arg):
        a = norm(arg)
        m = re.fullmatch(r"hash_combine_range\((\w+(?:\.\w+)?)\.begin\(\),(\w+(?:\.\w+)?)\.end\(\)\)", a)
        if m and m.group(1) == m.group(2):
            x = m.group(1)
            if x == "directoryValue":
                return ".dirValueBytes"
            if x == "info.value":
                return ".childValueBytes"
            if self.bind.get(x) == "sub":
                return ".childSubSigBytes"
            raise ExtractError("hash_combine_range over unknown range " + x)
        m = re.fullmatch(r"(\w+)\.getOutputInfo\(\)\.(\w+)", a)
        if m and self.bind.get(m.group(1)) in ("dir", "child"):
            which = self.bind[m.group(1)]
            return ".%sField .%s" % (which, m.group(2))
        if a == "info.filename":
            return ".childFilename"
        if re.fullmatch(r"0[xX][0-9a-fA-F]+|\d+", a):
            return ".const %d" % int(a, 0)
        raise ExtractError("unknown hash_combine argument: " + a)

    def cond(self, c):
        c = norm(c)
        m = re.fullmatch(r"(\w+)\.is(\w+)\(\)", c)
        if m and self.bind.get(m.group(1)) == "dir":
            return ".dirIs .%s" % m.group(2)
        if m and self.bind.get(m.group(1)) == "child":
            return ".childIs .%s" % m.group(2)
        if c == "info.%s.hasValue()" % self.info["member"]:
            return ".childHasSubSig"
        raise ExtractError("unknown condition: " + c)

    def stmts(self, in_child):
        out = []
        while not self.eof():
            rest = self.t[self.i:]
            if rest.startswith("{"):
                sub = P(self.block(), self.info)
                sub.bind = dict(self.bind)
                inner = sub.stmts(in_child)
                if sub.init or sub.result or sub.child:
                    raise ExtractError("unexpected statement in nested block")
                out += inner
                continue
            m = re.match(r"if\b", rest)
            if m:
                self.i += 2
                c = self.cond(self.paren())
                t = P(self.block(), self.info)
                t.bind = dict(self.bind)
                ts = t.stmts(in_child)
                self.ws()
                if not self.t[self.i:].startswith("else"):
                    raise ExtractError("if without else in a signature body")
                self.i += 4
                e = P(self.block(), self.info)
                e.bind = dict(self.bind)
                es = e.stmts(in_child)
                for q in (t, e):
                    if q.init or q.result or q.child is not None:
                        raise ExtractError("unexpected statement inside if/else")
                out += [".ifc (%s)" % c] + ts + [".els"] + es + [".fi"]
                continue
            m = re.match(r"for\b", rest)
            if m:
                if in_child or self.child is not None:
                    raise ExtractError("nested or repeated loop")
                self.i += 3
                hdr = norm(self.paren())
                if hdr != "const auto&info:childResults":
                    raise ExtractError("unexpected loop header: " + hdr)
                b = P(self.block(), self.info)
                b.bind = dict(self.bind)
                self.child = b.stmts(True)
                if b.init or b.result:
                    raise ExtractError("unexpected statement inside loop")
                continue
            s = norm(self.until_semicolon())
            if s == "using llvm::hash_combine":
                continue
            m = re.fullmatch(r"llvm::hash_code code=hash_value\((\w+)\)", s)
            if m:
                if self.init or in_child or out:
                    raise ExtractError("initialiser not first")
                if m.group(1) != "path":
                    raise ExtractError("initialiser hashes " + m.group(1))
                self.init = ".path"
                continue
            m = re.fullmatch(r"auto value=BuildValue::fromData\((\w+(?:\.\w+)?)\)", s)
            if m:
                src = m.group(1)
                if src == "directoryValue":
                    self.bind["value"] = "dir"
                elif src == "info.value" and in_child:
                    self.bind["value"] = "child"
                else:
                    raise ExtractError("value decoded from " + src)
                continue
            m = re.fullmatch(r"auto&(\w+)=info\.(\w+)\.getValue\(\)", s)
            if m and m.group(2) == self.info["member"] and in_child:
                self.bind[m.group(1)] = "sub"
                continue
            m = re.fullmatch(r"code=hash_combine\(code,(.*)\)", s)
            if m:
                out.append(".comb (%s)" % self.datum(m.group(1)))
                continue
            m = re.fullmatch(r"ti\.complete\(BuildValue::(\w+)\(CommandSignature\(uint64_t\(code\)\)\)\.toData\(\)\)", s)
            if m and not in_child:
                if m.group(1) != self.info["make"]:
                    raise ExtractError("completes with " + m.group(1))
                self.result = self.info["kind"]
                continue
            raise ExtractError("unknown statement in %s::inputsAvailable: %s" % (self.info["cls"], s))
        return out


def recipe(cbody, info):
    body = method_body(cbody, r"virtual\s+void\s+inputsAvailable\s*\(\s*TaskInterface\s+ti\s*\)")
    p = P(body, info)
    root = p.stmts(False)
    if p.init is None or p.result is None or p.child is None:
        raise ExtractError("%s::inputsAvailable: missing initialiser, loop or completion" % info["cls"])
    # statements after the loop would be appended to `root` by the parser; forbid them by position
    loop_at = body.find("for")
    tail = body[loop_at:]
    _, end = find_block(tail, tail.find("{"))
    after = norm(tail[end:])
    if not re.fullmatch(r"ti\.complete\(.*\);", after):
        raise ExtractError("statements between the loop and the completion: " + after[:80])
    return p.init, root, p.child, p.result


# ---------------------------------------------------------------------------------------------
# request structure (start / provideValue): compared against the modelled shape
# ---------------------------------------------------------------------------------------------
START = norm("""
    if (filters.isEmpty()) {
      ti.request(BuildKey::makeDirectoryContents(path).toData(), 0);
    } else {
      ti.request(BuildKey::makeFilteredDirectoryContents(path, filters).toData(), 0);
    }""")

PROVIDE = """
    if (inputID == 0) {
      directoryValue = valueData;
      auto value = BuildValue::fromData(valueData);
      @GUARD@
      ASSERT
      auto filenames = value.getDirectoryContents();
      for (size_t i = 0; i != filenames.size(); ++i) {
        SmallString<256> childPath{ path };
        llvm::sys::path::append(childPath, filenames[i]);
        childResults.emplace_back(SubpathInfo{ filenames[i], {}, None });
        ti.request(BuildKey::makeNode(childPath).toData(), 1 + i);
      }
      return;
    }
    if (inputID >= 1 && inputID < 1 + childResults.size()) {
      auto index = inputID - 1;
      auto& childResult = childResults[index];
      childResult.value = valueData;
      auto value = BuildValue::fromData(valueData);
      if (value.isExistingInput()) {
        if (value.getOutputInfo().isDirectory()) {
          SmallString<256> childPath{ path };
          llvm::sys::path::append(childPath, childResult.filename);
          ti.request(BuildKey::@MAKE@(childPath, filters).toData(), 1 + childResults.size() + index);
        }
      }
      return;
    }
    auto index = inputID - 1 - childResults.size();
    ASSERT
    childResults[index].@MEMBER@ = valueData;
"""

GUARDS = {
    "tree": "if ((filters.isEmpty() && !value.isDirectoryContents()) || (!filters.isEmpty() && !value.isFilteredDirectoryContents())) { return; }",
    "struct": "if (value.isMissingInput() || value.isSkippedCommand()) return;",
}


def drop_asserts_and_inputid_comments(s):
    s = re.sub(r"\bassert\s*\((?:[^()]|\([^()]*\))*\)\s*;", "", s)
    s = re.sub(r"/\*inputID=\*/", "", s)
    return s


def check_requests(raw_cbody, which, info):
    # /*inputID=*/ comments are removed by strip_comments already; asserts are compiled out (NDEBUG)
    start = norm(drop_asserts_and_inputid_comments(method_body(raw_cbody, r"virtual\s+void\s+start\s*\(\s*TaskInterface\s+ti\s*\)")))
    if start != START:
        raise ExtractError("%s::start is not the modelled request (listing key by filters.isEmpty()): %s" % (info["cls"], start[:200]))
    pv = norm(drop_asserts_and_inputid_comments(method_body(
        raw_cbody, r"virtual\s+void\s+provideValue\s*\(\s*TaskInterface\s+ti\s*,\s*uintptr_t\s+inputID\s*,\s*const\s+KeyType&\s*key\s*,\s*const\s+ValueType&\s*valueData\s*\)")))
    want = norm(PROVIDE.replace("ASSERT", "").replace("@GUARD@", GUARDS[which]).replace("@MAKE@", info["make"]).replace("@MEMBER@", info["member"]))
    if pv != want:
        # locate the first difference for the report
        k = next((i for i in range(min(len(pv), len(want))) if pv[i] != want[i]), min(len(pv), len(want)))
        raise ExtractError("%s::provideValue differs from the modelled request structure at: ...%s" % (info["cls"], pv[max(0, k - 40):k + 80]))


# ---------------------------------------------------------------------------------------------
# listing: filter polarity and sort order
# ---------------------------------------------------------------------------------------------
def listing_facts(src):
    dct = class_body(src, "DirectoryContentsTask")
    fct = class_body(src, "FilteredDirectoryContentsTask")
    gc = norm(method_body(dct, r"static\s+std::error_code\s+getContents\s*\([^)]*\)"))
    gf = norm(method_body(fct, r"static\s+std::error_code\s+getFilteredContents\s*\([^)]*\)"))
    facts = {}
    for name, body in (("unfiltered", gc), ("filtered", gf)):
        m = re.search(r"std::sort\(filenames\.begin\(\),filenames\.end\(\),\[\]\(const std::string&a,const std::string&b\)\{return (a<b|b<a|a>b|b>a);\}\);", body)
        if not m:
            raise ExtractError("sort call of the %s listing not recognised" % name)
        facts[name + "_asc"] = m.group(1) in ("a<b", "b>a")
        if body.count("std::sort(") != 1:
            raise ExtractError("more than one sort")
    # does the directory iterator follow symlinks?  (then status() of a dangling link is an error and the
    # `it != end && !ec` loop stops there: the entry and every later one are dropped from the listing)
    hdr = strip_comments(read("include/llvm/Support/FileSystem.h"))
    if not re.search(r"explicit\s+directory_iterator\(const\s+Twine\s*&path,\s*std::error_code\s*&ec,\s*bool\s+follow_symlinks\s*=\s*true\)", hdr):
        raise ExtractError("directory_iterator(path, ec, follow_symlinks = true) not found in FileSystem.h")
    for name, body in (("unfiltered", gc), ("filtered", gf)):
        m = re.search(r"for\(auto it=llvm::sys::fs::directory_iterator\(path,ec(,true|,false)?\),end=llvm::sys::fs::directory_iterator\(\);it!=end&&!ec;it=it\.increment\(ec\)\)", body)
        if not m:
            raise ExtractError("directory iteration loop of the %s listing not recognised" % name)
        facts[name + "_follows"] = m.group(1) != ",false"
    # unfiltered: every entry is pushed (except symlinks resolving to a prefix of the path)
    if "filenames.push_back(llvm::sys::path::filename(it->path()));" not in gc:
        raise ExtractError("getContents no longer pushes every entry name")
    if gc.count("continue;") != 1 or gc.count("push_back") != 1:
        raise ExtractError("getContents has unexpected skips")
    m = re.search(r"bool excluded=(true|false);for\(auto pattern:filterStrings\)\{if\(llbuild::basic::sys::filenameMatch\(pattern\.data\(\),filename\.c_str\(\)\)(==|!=)llbuild::basic::sys::(MATCH|NO_MATCH)\)\{excluded=(true|false);break;\}\}if\((!?)excluded\)filenames\.push_back\(filename\);", gf)
    if not m:
        raise ExtractError("filter loop of getFilteredContents not recognised")
    init, op, const, setto, neg = m.groups()
    if init != "false" or setto != "true":
        raise ExtractError("filter loop: excluded initial/assigned values changed")
    # the loop sets `excluded` when (result OP CONST): normalise to "result is MATCH" = on_match
    on_match = (op == "==") == (const == "MATCH")
    facts["exclude_when_match_is"] = on_match
    facts["keep_when_excluded_is"] = (neg != "!")
    if gf.count("push_back") != 1:
        raise ExtractError("getFilteredContents pushes in more than one place")
    return facts, gc, gf


def lean_list(xs, indent="  "):
    if not xs:
        return "[]"
    return "[\n" + ",\n".join(indent + "  " + x for x in xs) + "]"


def run():
    raw = read(SRC)
    src = strip_comments(raw)
    out = []
    out.append("namespace LLBuild.Generated.DirTreeRecipe\n")
    out.append("""/-- stat-record fields (`FileInfo` members) a signature body can read through `getOutputInfo()` -/
inductive StatField | device | inode | mode | size | modTime
  deriving DecidableEq, Repr

/-- `BuildValue::is<Kind>()` predicates used as conditions -/
inductive ValuePred | DirectoryContents | FilteredDirectoryContents | ExistingInput | MissingInput
  deriving DecidableEq, Repr

/-- second argument of one `code = hash_combine(code, <datum>)` call -/
inductive Datum
  | path                              -- hash_value(path): the initialiser
  | dirValueBytes                     -- hash_combine_range(directoryValue.begin(), directoryValue.end())
  | dirField (f : StatField)          -- BuildValue::fromData(directoryValue).getOutputInfo().<f>
  | childFilename                     -- info.filename
  | childValueBytes                   -- hash_combine_range(info.value.begin(), info.value.end())
  | childField (f : StatField)        -- BuildValue::fromData(info.value).getOutputInfo().<f>
  | childSubSigBytes                  -- hash_combine_range over info.<sub-signature member>.getValue()
  | const (n : Nat)
  deriving DecidableEq, Repr

inductive Cond
  | dirIs (p : ValuePred)             -- BuildValue::fromData(directoryValue).is<p>()
  | childIs (p : ValuePred)           -- BuildValue::fromData(info.value).is<p>()
  | childHasSubSig                    -- info.<sub-signature member>.hasValue()
  deriving DecidableEq, Repr

/-- statements, flattened: `ifc c … els … fi` brackets an `if (c) { … } else { … }` -/
inductive Stmt
  | comb (d : Datum)
  | ifc (c : Cond)
  | els
  | fi
  deriving DecidableEq, Repr

/-- the `BuildValue::make<Kind>` the body completes with -/
inductive SigKind | DirectoryTreeSignature | DirectoryTreeStructureSignature
  deriving DecidableEq, Repr

/-- one `inputsAvailable` body: `code = <init>`, the statements before the loop, the loop body executed for each
element of `childResults` in order, and the kind of the value completed with `CommandSignature(uint64_t(code))` -/
structure Recipe where
  init : Datum
  root : List Stmt
  perChild : List Stmt
  resultKind : SigKind
  deriving DecidableEq, Repr
""")
    used = []
    for which, info in CLASSES.items():
        cb = class_body(src, info["cls"])
        init, root, child, kind = recipe(cb, info)
        check_requests(cb, which, info)
        used.append(cb)
        out.append("/-- `%s::inputsAvailable` — %s -/" % (info["cls"], SRC))
        out.append("def %sRecipe : Recipe where\n  init := %s\n  root := %s\n  perChild := %s\n  resultKind := .%s\n" % (
            which, init, lean_list(root), lean_list(child), kind))
    for s in out:
        for f in re.findall(r"\.(?:dirField|childField) \.(\w+)", s):
            if f not in ("device", "inode", "mode", "size", "modTime"):
                raise ExtractError("unknown FileInfo field " + f)
        for p in re.findall(r"\.(?:dirIs|childIs) \.(\w+)", s):
            if p not in ("DirectoryContents", "FilteredDirectoryContents", "ExistingInput", "MissingInput"):
                raise ExtractError("unknown value predicate " + p)
    facts, gc, gf = listing_facts(src)
    b = lambda x: "true" if x else "false"
    out.append("""/-- `start`/`provideValue` of both tasks have the modelled request structure (checked textually by the extractor,
which fails closed otherwise): listing key chosen by `filters.isEmpty()`; `Node(childPath)` requested for every
listed name; the sub-signature of `childPath` requested iff the child's value is an existing input whose info
`isDirectory()`. -/
def requestStructureChecked : Bool := true

/-- `std::sort(..., a < b)` in `DirectoryContentsTask::getContents` -/
def unfilteredSortAscending : Bool := %s
/-- `std::sort(..., a < b)` in `FilteredDirectoryContentsTask::getFilteredContents` -/
def filteredSortAscending : Bool := %s
/-- the `directory_iterator` of `getContents` follows symbolic links (then a dangling link ends the loop early) -/
def unfilteredIteratorFollowsSymlinks : Bool := %s
/-- the `directory_iterator` of `getFilteredContents` follows symbolic links -/
def filteredIteratorFollowsSymlinks : Bool := %s
/-- the filter loop sets `excluded` when "`filenameMatch(pattern, name)` is MATCH" has this truth value -/
def excludeWhenMatchIs : Bool := %s
/-- a name is pushed when `excluded` has this truth value -/
def keepWhenExcludedIs : Bool := %s

end LLBuild.Generated.DirTreeRecipe""" % (b(facts["unfiltered_asc"]), b(facts["filtered_asc"]),
                                         b(facts["unfiltered_follows"]), b(facts["filtered_follows"]),
                                         b(facts["exclude_when_match_is"]), b(facts["keep_when_excluded_is"])))
    return write_generated("DirTreeRecipe", "\n".join(out), [(SRC + " (DirectoryTree*SignatureTask, *DirectoryContentsTask)", "".join(used) + gc + gf)])


if __name__ == "__main__":
    print(run())
