"""X3 (C13 part): FileInfo.h / FileInfo.cpp / FileSystem.h -> Generated/FileInfo.lean

Extracted (the tables the C13 model and theorems quantify over):
  * members of `struct FileTimestamp`, `struct FileInfo` (declaration order, with their types) and the length
    of `FileChecksum::bytes`;
  * the conjuncts of `FileTimestamp::operator==`, `FileChecksum::operator==` (memcmp over the whole array),
    `FileInfo::operator==` (member comparisons, plus the optional `isMissing() == rhs.isMissing()` conjunct);
  * the leaves tested against 0 by `FileInfo::isMissing()`;
  * the missing-sentinel guard of `FileInfo::getInfoForPath` (`if (result.isMissing()) result.<leaf> = <n>;`);
  * for `DeviceAgnosticFileSystem` / `ChecksumOnlyFileSystem` `getFileInfo` / `getLinkInfo`: which `impl->` call
    produces the record, which leaves are overwritten with 0, where the checksum comes from;
  * the platform hasher (non-Apple: MD5, 16 digest bytes) and that `finalize()` writes the member `copy()` reads.
Anything that does not have exactly the expected shape raises ExtractError (fail closed).
"""
import re
from xcommon import *

H = "include/llbuild/Basic/FileInfo.h"
CPP = "lib/Basic/FileInfo.cpp"
FS = "include/llbuild/Basic/FileSystem.h"

LEAVES = ["device", "inode", "mode", "size", "modTime.seconds", "modTime.nanoseconds"]


def leaf_name(s):
    s = s.strip()
    if s not in LEAVES:
        raise ExtractError("unknown FileInfo leaf `%s`" % s)
    parts = s.split(".")
    return parts[0] + "".join(p[0].upper() + p[1:] for p in parts[1:])


def ws(s):
    return re.sub(r"\s+", " ", s).strip()


def struct_body(src, name):
    m = re.search(r"\bstruct\s+%s\s*\{" % name, src)
    if not m:
        raise ExtractError("struct %s not found" % name)
    body, _ = find_block(src, m.end() - 1)
    return body


def class_body(src, name):
    m = re.search(r"\bclass\s+%s\s*:\s*public\s+\w+\s*\{" % name, src)
    if not m:
        raise ExtractError("class %s not found" % name)
    body, _ = find_block(src, m.end() - 1)
    return body


def strip_nested(body):
    """Remove every {...} block nested in `body` (method bodies, initialisers)."""
    out, depth = [], 0
    for c in body:
        if c == "{":
            depth += 1
        elif c == "}":
            depth -= 1
        elif depth == 0:
            out.append(c)
    return "".join(out)


def data_members(body):
    """[(type, name)] of the non-static data members, declaration order."""
    flat = strip_nested(body)
    mem = []
    for stmt in flat.split(";"):
        s = ws(stmt)
        if not s or "(" in s or s.startswith(("static ", "using ", "typedef ", "friend ")):
            continue
        s = re.sub(r"\s*=\s*$", "", s)            # `= {}` initialiser (block removed above)
        m = re.fullmatch(r"([\w:]+)\s+(\w+)(\[(\d+)\])?", s)
        if not m:
            raise ExtractError("unrecognised member declaration `%s`" % s)
        mem.append((m.group(1), m.group(2), m.group(4)))
    return mem


def conjuncts(body, what):
    m = re.fullmatch(r"return\s*\(?(.*?)\)?\s*;", ws(body))
    if not m:
        raise ExtractError("%s: body is not a single return statement" % what)
    e = m.group(1)
    # the optional outer parenthesis was stripped non-greedily; re-balance
    if e.count("(") != e.count(")"):
        e = e + ")" * (e.count("(") - e.count(")"))
    return [c.strip() for c in e.split("&&")]


def preprocess_non_apple_non_win(text):
    """Resolve the #if/#ifndef/#else/#elif/#endif lines for !__APPLE__ && !_WIN32 (the platform built here)."""
    out, stack = [], []          # stack of [taken_now, any_taken]

    def truth(cond):
        c = ws(cond)
        table = {"defined(__APPLE__)": False, "defined(_WIN32)": False}
        if c in table:
            return table[c]
        if re.fullmatch(r"defined\(LLBUILD_\w+_H\)", c):     # include guard, first inclusion
            return False
        raise ExtractError("unsupported preprocessor condition `%s`" % c)
    for line in text.split("\n"):
        s = line.strip()
        if s.startswith("#"):
            d = ws(s[1:])
            if d.startswith("ifdef "):
                t = truth("defined(%s)" % d[6:].strip()); stack.append([t, t])
            elif d.startswith("ifndef "):
                t = not truth("defined(%s)" % d[7:].strip()); stack.append([t, t])
            elif d.startswith("if "):
                t = truth(d[3:]); stack.append([t, t])
            elif d.startswith("elif "):
                if not stack:
                    raise ExtractError("#elif without #if")
                t = (not stack[-1][1]) and truth(d[5:]); stack[-1][0] = t; stack[-1][1] = stack[-1][1] or t
            elif d == "else":
                if not stack:
                    raise ExtractError("#else without #if")
                t = not stack[-1][1]; stack[-1][0] = t; stack[-1][1] = True
            elif d == "endif":
                if not stack:
                    raise ExtractError("#endif without #if")
                stack.pop()
            elif d.startswith(("include ", "define ")):
                pass
            else:
                raise ExtractError("unsupported preprocessor line `%s`" % s)
            continue
        if all(t for t, _ in stack):
            out.append(line)
    if stack:
        raise ExtractError("unterminated #if")
    return "\n".join(out)


READLINK_BLOCK = ("char buff[PATH_MAX]; ssize_t len = ::readlink(path.c_str(), buff, sizeof(buff)-1); "
                  "if (len != -1) { buff[len] = '\\0'; PlatformSpecificHasher(std::string(buff)).readPathStringAndDigest(info.checksum); } "
                  "else { info.checksum = {0}; }")


def wrapper(cls_body, cls, fn):
    body = function_body(cls_body, r"virtual\s+FileInfo\s+%s\s*\(\s*const\s+std::string\s*&\s*path\s*\)\s*override" % fn)
    body = ws(preprocess_non_apple_non_win(body))
    what = "%s::%s" % (cls, fn)
    m = re.match(r"auto info = impl->(getFileInfo|getLinkInfo)\(path\); ?", body)
    if not m:
        raise ExtractError(what + ": does not start with `auto info = impl->get{File,Link}Info(path);`")
    source = {"getFileInfo": "fileInfo", "getLinkInfo": "linkInfo"}[m.group(1)]
    rest = body[m.end():]
    zeroed, cks = [], "keep"
    while True:
        rest = rest.lstrip()
        if rest == "return info;":
            break
        m = re.match(r"info\.(\w+(?:\.\w+)?) = 0;", rest)
        if m:
            l = leaf_name(m.group(1))
            if l not in zeroed:
                zeroed.append(l)
            rest = rest[m.end():]
            continue
        m = re.match(r"info\.modTime = FileTimestamp\(\);", rest)
        if m:   # value-initialisation: both members zero
            for l in ("modTimeSeconds", "modTimeNanoseconds"):
                if l not in zeroed:
                    zeroed.append(l)
            rest = rest[m.end():]
            continue
        m = re.match(r"info\.checksum = impl->getFileChecksum\(path\);", rest)
        if m:
            cks = "implFileChecksum"
            rest = rest[m.end():]
            continue
        if rest.startswith(READLINK_BLOCK):
            cks = "readlinkDigestElseZero"
            rest = rest[len(READLINK_BLOCK):]
            continue
        raise ExtractError(what + ": unrecognised statement at `%s`" % rest[:80])
    return source, zeroed, cks


def forwards_checksum(cls_body, cls):
    body = ws(function_body(cls_body, r"virtual\s+FileChecksum\s+getFileChecksum\s*\(\s*const\s+std::string\s*&\s*path\s*\)\s*override"))
    if body != "return impl->getFileChecksum(path);":
        raise ExtractError(cls + "::getFileChecksum does not simply forward to impl")


def run():
    h_raw, cpp_raw, fs_raw = read(H), read(CPP), read(FS)
    h, cpp, fs = strip_comments(h_raw), strip_comments(cpp_raw), strip_comments(fs_raw)

    # ---- struct layouts ---------------------------------------------------------------------
    ts_body, ck_body, fi_body = struct_body(h, "FileTimestamp"), struct_body(h, "FileChecksum"), struct_body(h, "FileInfo")
    ts_mem = data_members(ts_body)
    if [(t, n, a) for t, n, a in ts_mem] != [("uint64_t", "seconds", None), ("uint64_t", "nanoseconds", None)]:
        raise ExtractError("FileTimestamp members changed: %r" % ts_mem)
    ck_mem = data_members(ck_body)
    if len(ck_mem) != 1 or ck_mem[0][:2] != ("uint8_t", "bytes") or not ck_mem[0][2]:
        raise ExtractError("FileChecksum members changed: %r" % ck_mem)
    cks_len = int(ck_mem[0][2])
    fi_mem = data_members(fi_body)
    want_types = {"device": "uint64_t", "inode": "uint64_t", "mode": "uint64_t", "size": "uint64_t",
                  "modTime": "FileTimestamp", "checksum": "FileChecksum"}
    for t, n, a in fi_mem:
        if a is not None or want_types.get(n) != t:
            raise ExtractError("FileInfo member `%s %s` is not one the model knows" % (t, n))
    members = [n for _, n, _ in fi_mem]
    if sorted(members) != sorted(want_types):
        raise ExtractError("FileInfo members changed: %r" % members)

    # ---- comparisons ------------------------------------------------------------------------
    op = r"bool\s+operator==\s*\(\s*const\s+%s\s*&\s*rhs\s*\)\s*const"
    ts_eq = []
    for c in conjuncts(function_body(ts_body, op % "FileTimestamp"), "FileTimestamp::operator=="):
        m = re.fullmatch(r"(\w+) == rhs\.(\w+)", c)
        if not m or m.group(1) != m.group(2) or m.group(1) not in ("seconds", "nanoseconds"):
            raise ExtractError("FileTimestamp::operator==: unrecognised conjunct `%s`" % c)
        ts_eq.append(m.group(1))
    ck_eq = ws(function_body(ck_body, op % "FileChecksum"))
    if ck_eq != "return (memcmp(bytes, rhs.bytes, sizeof(bytes)) == 0);":
        raise ExtractError("FileChecksum::operator== is not a memcmp over the whole array: `%s`" % ck_eq)
    fi_eq, same_missing = [], False
    for c in conjuncts(function_body(fi_body, op % "FileInfo"), "FileInfo::operator=="):
        if c == "isMissing() == rhs.isMissing()":
            same_missing = True
            continue
        m = re.fullmatch(r"(\w+) == rhs\.(\w+)", c)
        if not m or m.group(1) != m.group(2) or m.group(1) not in want_types:
            raise ExtractError("FileInfo::operator==: unrecognised conjunct `%s`" % c)
        fi_eq.append(m.group(1))
    ne = ws(function_body(fi_body, r"bool\s+operator!=\s*\(\s*const\s+FileInfo\s*&\s*rhs\s*\)\s*const"))
    if ne != "return !(*this == rhs);":
        raise ExtractError("FileInfo::operator!= is not the negation of ==")
    missing = []
    for c in conjuncts(function_body(fi_body, r"bool\s+isMissing\s*\(\s*\)\s*const"), "FileInfo::isMissing"):
        m = re.fullmatch(r"([\w.]+) == 0", c)
        if not m:
            raise ExtractError("FileInfo::isMissing: unrecognised conjunct `%s`" % c)
        missing.append(leaf_name(m.group(1)))

    # ---- getInfoForPath: the sentinel guard --------------------------------------------------
    gi = ws(preprocess_non_apple_non_win(function_body(cpp, r"FileInfo\s+FileInfo::getInfoForPath\s*\(\s*const\s+std::string\s*&\s*path\s*,\s*bool\s+asLink\s*\)")))
    m = re.search(r"if \(result\.isMissing\(\)\) \{ result\.([\w.]+) = (\d+); (?:assert\([^;]*\); )?\} return result;$", gi)
    guard = "some (.%s, %s)" % (leaf_name(m.group(1)), m.group(2)) if m else "none"
    if not m and "if (result.isMissing())" in gi:
        raise ExtractError("getInfoForPath: sentinel guard has an unrecognised shape")
    if not re.search(r"if \(statResult != 0\) \{ memset\(&result, 0, sizeof\(result\)\);", gi):
        raise ExtractError("getInfoForPath: the failure branch no longer zero-fills the record")

    # ---- wrappers ----------------------------------------------------------------------------
    da, co = class_body(fs, "DeviceAgnosticFileSystem"), class_body(fs, "ChecksumOnlyFileSystem")
    forwards_checksum(da, "DeviceAgnosticFileSystem")
    forwards_checksum(co, "ChecksumOnlyFileSystem")
    wr = {}
    for cls, body, tag in (("DeviceAgnosticFileSystem", da, "deviceAgnostic"), ("ChecksumOnlyFileSystem", co, "checksumOnly")):
        for fn, ftag in (("getFileInfo", "File"), ("getLinkInfo", "Link")):
            wr[tag + ftag] = wrapper(body, cls, fn)

    # ---- hasher ------------------------------------------------------------------------------
    hp = preprocess_non_apple_non_win(h)
    if not re.search(r"typedef\s+FileChecksumHasherMD5\s+PlatformSpecificHasher\s*;", hp):
        raise ExtractError("the platform hasher on this platform is not FileChecksumHasherMD5")
    md5 = class_body(hp, "FileChecksumHasherMD5")
    fin = ws(function_body(md5, r"void\s+finalize\s*\(\s*\)\s*override"))
    cp = ws(function_body(md5, r"void\s+copy\s*\(\s*uint8_t\s*\*\s*outputBuffer\s*\)\s*override"))
    if cp != "std::copy(output.Bytes.begin(), output.Bytes.end(), outputBuffer);":
        raise ExtractError("FileChecksumHasherMD5::copy has an unrecognised shape: `%s`" % cp)
    if fin != "hasher.final(output);":
        raise ExtractError("FileChecksumHasherMD5::finalize does not write the digest into the member `output` that copy() reads: `%s`" % fin)
    if not re.search(r"llvm::MD5::MD5Result\s+output\s*;", strip_nested(md5)):
        raise ExtractError("FileChecksumHasherMD5 has no member `llvm::MD5::MD5Result output`")
    md5h = strip_comments(read("include/llvm/Support/MD5.h"))
    m = re.search(r"struct\s+MD5Result\s*\{\s*std::array<uint8_t,\s*(\d+)>\s+Bytes\s*;", md5h)
    if not m:
        raise ExtractError("llvm::MD5::MD5Result layout not recognised")
    digest_len = int(m.group(1))
    if digest_len > cks_len:
        raise ExtractError("digest longer than FileChecksum::bytes")

    L = []
    L.append("namespace LLBuild.Generated.FileInfo\n")
    L.append("/-- members of `struct FileTimestamp` (declaration order) -/")
    L.append("inductive TSMember | " + " | ".join(n for _, n, _ in ts_mem) + "\n  deriving DecidableEq, Repr\n")
    L.append("/-- members of `struct FileInfo` (declaration order) -/")
    L.append("inductive Member | " + " | ".join(members) + "\n  deriving DecidableEq, Repr\n")
    L.append("/-- scalar 64-bit leaves of a FileInfo (`modTime.seconds` is `modTimeSeconds`) -/")
    L.append("inductive Leaf | " + " | ".join(leaf_name(l) for l in LEAVES) + "\n  deriving DecidableEq, Repr\n")
    L.append("def fileInfoMembers : List Member := [%s]\n" % ", ".join("." + n for n in members))
    L.append("/-- `uint8_t bytes[N]` of FileChecksum; `operator==` is `memcmp` over all N bytes -/")
    L.append("def checksumBytes : Nat := %d\n" % cks_len)
    L.append("/-- bytes the platform hasher (FileChecksumHasherMD5 → llvm::MD5::MD5Result) copies into the checksum -/")
    L.append("def digestBytes : Nat := %d\n" % digest_len)
    L.append("/-- conjuncts of `FileTimestamp::operator==` -/")
    L.append("def timestampEq : List TSMember := [%s]\n" % ", ".join("." + n for n in ts_eq))
    L.append("/-- member conjuncts `m == rhs.m` of `FileInfo::operator==` -/")
    L.append("def fileInfoEq : List Member := [%s]\n" % ", ".join("." + n for n in fi_eq))
    L.append("/-- whether `FileInfo::operator==` also has the conjunct `isMissing() == rhs.isMissing()` -/")
    L.append("def fileInfoEqSameMissing : Bool := %s\n" % ("true" if same_missing else "false"))
    L.append("/-- leaves compared with 0 by `FileInfo::isMissing()` -/")
    L.append("def isMissingZero : List Leaf := [%s]\n" % ", ".join("." + n for n in missing))
    L.append("/-- `if (result.isMissing()) result.<leaf> = <n>;` at the end of `getInfoForPath` -/")
    L.append("def sentinelGuard : Option (Leaf × Nat) := %s\n" % guard)
    L.append("inductive InfoSource | fileInfo | linkInfo\n  deriving DecidableEq, Repr\n")
    L.append("/-- where a wrapper takes `info.checksum` from -/")
    L.append("inductive ChecksumSource | keep | implFileChecksum | readlinkDigestElseZero\n  deriving DecidableEq, Repr\n")
    L.append("structure Wrapper where\n  source : InfoSource\n  zeroed : List Leaf\n  checksum : ChecksumSource\n  deriving Repr\n")
    for k in ("deviceAgnosticFile", "deviceAgnosticLink", "checksumOnlyFile", "checksumOnlyLink"):
        s, z, c = wr[k]
        cls = "DeviceAgnosticFileSystem" if k.startswith("device") else "ChecksumOnlyFileSystem"
        L.append("/-- `%s::get%sInfo` -/" % (cls, k[-4:]))
        L.append("def %s : Wrapper := ⟨.%s, [%s], .%s⟩\n" % (k, s, ", ".join("." + x for x in z), c))
    L.append("end LLBuild.Generated.FileInfo")
    return write_generated("FileInfo", "\n".join(L), [(H, h), (CPP, cpp), (FS, fs)])


if __name__ == "__main__":
    print(run())
