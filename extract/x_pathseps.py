"""X14: sys::getPathSeparators() (non-Windows branch) -> Generated/PathSeps.lean"""
import re
from xcommon import *


def run():
    rel = "lib/Basic/PlatformUtility.cpp"
    src = strip_comments(read(rel))
    body = function_body(src, r"std::string\s+sys::getPathSeparators\s*\(\s*\)")
    m = re.search(r"#if\s+defined\(_WIN32\)\s*return\s*\"((?:[^\"\\]|\\.)*)\"\s*;\s*#else\s*return\s*\"((?:[^\"\\]|\\.)*)\"\s*;\s*#endif", body, re.S)
    if not m:
        raise ExtractError("getPathSeparators: unexpected shape")
    seps = c_string_bytes(m.group(2))
    lean = "namespace LLBuild.Generated\n\n/-- bytes of the string returned by `sys::getPathSeparators()` on this platform -/\n" \
           "def pathSeparators : List UInt8 := %s\n\nend LLBuild.Generated\n" % lean_bytes(seps)
    return write_generated("PathSeps", lean, [(rel, body)])


if __name__ == "__main__":
    print(run())
