"""X18: lib/Commands/NinjaBuildCommand.cpp -> Generated/NinjaBuildTables.lean

The table-like parts of the Ninja driver's decision logic: BuildValue kinds with ordinals; which value kinds
an input may have without skipping its consumer; the operator that accumulates `newestModTime`; the two
comparison operators of `canUpdateIfNewerWithResult` (strict / non-strict); the engine call used for each class
of inputs in `start()` (request vs mustFollow); the guards of `buildCommandIsResultValid` in source order; the
condition that disables the update-if-newer shortcut; the order of the decisions in `inputsAvailable`; the
polarity of ForceChange on success; the key under which input rules are registered; the signature that
`NinjaBuildCommandRule` hands to `core::Rule` (none, or the statement's input lists by class - F56).  Fails closed."""
import re
from xcommon import *

REL = "lib/Commands/NinjaBuildCommand.cpp"
ENGINE_REL = "lib/Core/BuildEngine.cpp"
KNOWN_KINDS = ["ExistingInput", "MissingInput", "SuccessfulCommand", "FailedCommand", "SkippedCommand"]
CMP = {"<": "lt", "<=": "le", ">": "gt", ">=": "ge"}


def lc(n):
    return n[0].lower() + n[1:]


def nows(s):
    return re.sub(r"\s+", "", s)


def method_body(src, name_regex):
    return function_body(src, name_regex)


def run():
    src = strip_comments(read(REL))
    used = []
    # 1 kinds ---------------------------------------------------------------------------------
    m = re.search(r"enum\s+class\s+BuildValueKind\s*:\s*uint32_t\s*\{(.*?)\}", src, re.S)
    if not m:
        raise ExtractError("BuildValueKind enum not found")
    used.append(m.group(0))
    kinds, nxt = [], 0
    for item in [x.strip() for x in m.group(1).split(",") if x.strip()]:
        mm = re.fullmatch(r"(\w+)(?:\s*=\s*(\d+))?", item)
        if not mm:
            raise ExtractError("enumerator: " + item)
        if mm.group(2) is not None:
            nxt = int(mm.group(2))
        kinds.append((mm.group(1), nxt))
        nxt += 1
    if sorted(k for k, _ in kinds) != sorted(KNOWN_KINDS):
        raise ExtractError("BuildValueKind enumerators changed: %s" % kinds)
    # the task --------------------------------------------------------------------------------
    task = function_body(src, r"static\s+core::Task\s*\*\s*buildCommand\s*\(\s*BuildContext\s*&\s*context\s*,\s*ninja::Command\s*\*\s*command\s*\)")
    used.append(task)
    # 2 constructor: deps disable the shortcut
    ctor = function_body(task, r"NinjaCommandTask\s*\(\s*BuildContext\s*&\s*context\s*,\s*ninja::Command\s*\*\s*command\s*\)\s*:\s*context\(context\)\s*,\s*command\(command\)")
    c = nows(ctor)
    if c == "if(command->getDepsStyle()!=ninja::Command::DepsStyleKind::None)canUpdateIfNewer=false;":
        deps_disable = True
    elif c == "":
        deps_disable = False
    else:
        raise ExtractError("NinjaCommandTask constructor: unexpected body")
    if not re.search(r"bool\s+canUpdateIfNewer\s*=\s*true\s*;", task):
        raise ExtractError("canUpdateIfNewer initial value")
    # 3 provideValue
    pv = function_body(task, r"virtual\s+void\s+provideValue\s*\([^)]*\)\s*override")
    m = re.search(r"if\s*\(((?:\s*!value\.is\w+\(\)\s*(?:&&)?)+)\)\s*\{\s*shouldSkip\s*=\s*true\s*;\s*(canUpdateIfNewer\s*=\s*false\s*;\s*)?"
                  r"if\s*\(\s*value\.is(\w+)\(\)\s*\)\s*\{\s*hasMissingInput\s*=\s*true\s*;", pv)
    if not m:
        raise ExtractError("provideValue: skip test shape")
    ok_kinds = re.findall(r"!value\.is(\w+)\(\)", m.group(1))
    bad_input_no_shortcut = m.group(2) is not None
    missing_kind = m.group(3)
    for k in ok_kinds + [missing_kind]:
        if k not in KNOWN_KINDS:
            raise ExtractError("provideValue: unknown kind " + k)
    m = re.search(r"if\s*\(\s*outputInfo\.isMissing\(\)\s*\)\s*\{\s*canUpdateIfNewer\s*=\s*false\s*;\s*\}\s*else\s*\{\s*"
                  r"if\s*\(\s*outputInfo\.modTime\s*(<=|>=|<|>)\s*newestModTime\s*\)\s*\{\s*newestModTime\s*=\s*outputInfo\.modTime\s*;\s*\}\s*\}", pv)
    if not m:
        raise ExtractError("provideValue: newestModTime accumulation shape")
    newest_cmp = CMP[m.group(1)]
    # 4 start(): engine call per input class, in source order
    st = function_body(task, r"virtual\s+void\s+start\s*\(\s*core::TaskInterface\s+ti\s*\)\s*override")
    reqs = {}
    for cls in ("explicitInputs", "implicitInputs", "orderOnlyInputs"):
        m = re.search(r"for\s*\(\s*auto\s+it\s*=\s*command->%s_begin\(\)[^{]*\{(.*?)\n\s*\}\n" % cls, st, re.S)
        if not m:
            raise ExtractError("start(): loop over " + cls)
        calls = re.findall(r"\bti\.(\w+)\s*\(", m.group(1))
        if len(calls) != 1 or calls[0] not in ("request", "mustFollow", "requestSingleUse"):
            raise ExtractError("start(): call in loop over %s: %s" % (cls, calls))
        reqs[cls] = calls[0]
    order = [x for x in re.findall(r"command->(\w+)_begin\(\)", st)]
    if order != ["explicitInputs", "implicitInputs", "orderOnlyInputs"]:
        raise ExtractError("start(): loop order %s" % order)
    # 5 canUpdateIfNewerWithResult
    cu = function_body(task, r"bool\s+canUpdateIfNewerWithResult\s*\(\s*const\s+BuildValue\s*&\s*result\s*\)")
    m = re.search(r"if\s*\(\s*outputInfo\.isMissing\(\)\s*\)\s*return\s+false\s*;\s*if\s*\(\s*context\.strict\s*\)\s*\{\s*if\s*\(\s*outputInfo\.modTime\s*(<=|>=|<|>)\s*newestModTime\s*\)\s*return\s+false\s*;\s*\}"
                  r"\s*else\s*\{\s*if\s*\(\s*outputInfo\.modTime\s*(<=|>=|<|>)\s*newestModTime\s*\)\s*return\s+false\s*;\s*\}\s*\}\s*return\s+true\s*;", cu)
    if not m:
        raise ExtractError("canUpdateIfNewerWithResult: unexpected shape (missing-output test, strict / non-strict comparison)")
    strict_cmp, nonstrict_cmp = CMP[m.group(1)], CMP[m.group(2)]
    # 6 inputsAvailable: order of decisions + shortcut guard + phony
    ia = function_body(task, r"virtual\s+void\s+inputsAvailable\s*\(\s*core::TaskInterface\s+ti\s*\)\s*override")
    marks = [("cancelled", r"if\s*\(\s*context\.isCancelled\s*\)"), ("phony", r"if\s*\(\s*command->getRule\(\)\s*==\s*context\.manifest->getPhonyRule\(\)\s*\)"),
             ("updateIfNewer", r"if\s*\(\s*canUpdateIfNewer\s*\)\s*\{"), ("simulate", r"if\s*\(\s*context\.simulate\s*\)"),
             ("skip", r"if\s*\(\s*shouldSkip\s*\)\s*\{\s*if\s*\(\s*hasMissingInput\s*\)"), ("run", r"auto\s+addExecuteJob\s*=")]
    pos = []
    for name, rx in marks:
        mm = list(re.finditer(rx, ia))
        if len(mm) != (2 if name == "updateIfNewer" else 1):
            raise ExtractError("inputsAvailable: decision '%s' found %d times" % (name, len(mm)))
        pos.append((mm[0].start(), name))
    decision_order = [n for _, n in sorted(pos)]
    m = re.search(r"if\s*\(\s*canUpdateIfNewer\s*\)\s*\{\s*if\s*\((.*?)\)\s*canUpdateIfNewer\s*=\s*false\s*;\s*if\s*\(\s*canUpdateIfNewer\s*\)\s*\{\s*"
                  r"BuildValue\s+result\s*=\s*computeCommandResult\(commandHash\)\s*;\s*if\s*\(\s*canUpdateIfNewerWithResult\(result\)\s*\)\s*\{\s*"
                  r"\+\+context\.numCommandsUpdated\s*;\s*return\s+ti\.complete\(result\.toValue\(\)\)\s*;", ia, re.S)
    if not m:
        raise ExtractError("inputsAvailable: update-if-newer block shape")
    guard = nows(m.group(1))
    forms = {"!command->hasGeneratorFlag()&&(!hasPriorResult||priorCommandHash!=commandHash)": (True, True, True),
             "!command->hasGeneratorFlag()&&(!hasPriorResult)": (True, True, False),
             "!command->hasGeneratorFlag()&&!hasPriorResult": (True, True, False),
             "(!hasPriorResult||priorCommandHash!=commandHash)": (False, True, True),
             "!hasPriorResult||priorCommandHash!=commandHash": (False, True, True)}
    if guard not in forms:
        raise ExtractError("inputsAvailable: unknown shortcut guard: " + guard)
    gen_exempt, prior_req, hash_cmp = forms[guard]
    pp = function_body(task, r"virtual\s+void\s+providePriorValue\s*\([^)]*\)\s*override")
    if nows(pp) != "BuildValuevalue=BuildValue::fromValue(valueData);if(value.isSuccessfulCommand()){hasPriorResult=true;priorCommandHash=value.getCommandHash();}":
        raise ExtractError("providePriorValue: unexpected shape")
    m = re.search(r"if\s*\(\s*command->getRule\(\)\s*==\s*context\.manifest->getPhonyRule\(\)\s*\)\s*\{(.*?)return\s+ti\.complete\(result\.toValue\(\)\s*,\s*forceChange\s*\)\s*;", ia, re.S)
    if not m:
        raise ExtractError("inputsAvailable: phony block shape")
    ph = nows(m.group(1))
    phony_skip = ph.startswith("if(shouldSkip)returnti.complete(BuildValue::makeSkippedCommand().toValue());")
    if phony_skip:
        ph = ph[len("if(shouldSkip)returnti.complete(BuildValue::makeSkippedCommand().toValue());"):]
    if ph != "BuildValueresult=computeCommandResult(commandHash);boolforceChange=false;for(unsignedi=0,e=result.getNumOutputs();i!=e;++i){if(result.getNthOutputInfo(i).isMissing()){forceChange=true;break;}}":
        raise ExtractError("inputsAvailable: phony block body")
    # 7 completion after execution
    ex = function_body(task, r"void\s+executeCommand\s*\(\s*core::TaskInterface\s+ti\s*,\s*QueueJobContext\s*\*\s*qctx\s*\)")
    m = re.search(r"return\s+ti\.complete\(\s*resultValue\.toValue\(\)\s*,\s*(!?)\s*command->hasRestatFlag\(\)\s*\)\s*;", ex)
    if not m:
        raise ExtractError("executeCommand: completion of a successful command")
    force_not_restat = m.group(1) == "!"
    if len(re.findall(r"ti\.complete\(\s*BuildValue::makeFailedCommand\(\)\.toValue\(\)\s*,\s*true\s*\)", ex)) != 2:
        raise ExtractError("executeCommand: failed completions are not (FailedCommand, force)")
    if not re.search(r"if\s*\(\s*result\.status\s*!=\s*ProcessStatus::Succeeded\s*\)", ex):
        raise ExtractError("executeCommand: process status test")
    # 7b discovered dependencies: every entry of the depfile whose path normalises is handed to the engine
    if len(re.findall(r"if\s*\(\s*!processDiscoveredDependencies\(ti\)\s*\)", ex)) != 1:
        raise ExtractError("executeCommand: processDiscoveredDependencies is not called once after a successful command")
    pd = function_body(task, r"bool\s+processDiscoveredDependencies\s*\(\s*core::TaskInterface\s+ti\s*\)")
    if not re.search(r"case\s+ninja::Command::DepsStyleKind::None\s*:\s*return\s+true\s*;", pd):
        raise ExtractError("processDiscoveredDependencies: DepsStyleKind::None")
    if not re.search(r"case\s+ninja::Command::DepsStyleKind::GCC\s*:\s*\{\s*auto\s+bufferOrError\s*=\s*util::readFileContents\(command->getDepsFile\(\)\)\s*;", pd):
        raise ExtractError("processDiscoveredDependencies: the GCC style reads command->getDepsFile()")
    if not re.search(r"core::MakefileDepsParser\(\s*bufferOrError\.get\(\)->getBuffer\(\)\s*,\s*actions\s*,\s*false\s*\)\.parse\(\)\s*;\s*return\s+actions\.numErrors\s*==\s*0\s*;", pd):
        raise ExtractError("processDiscoveredDependencies: parse call")
    ad = nows(function_body(pd, r"virtual\s+void\s+actOnRuleDependency\s*\([^)]*\)\s*override"))
    pre_ad = ("SmallString<256>absPathTmp=unescapedWord;if(!llbuild::ninja::Manifest::normalize_path(workingDirectory,absPathTmp)){return;}"
              "StringRefpath=absPathTmp;")
    call_ad = "ti.discoveredDependency(path);"
    if not (ad.startswith(pre_ad) and ad.endswith(call_ad) and ad.count("discoveredDependency") == 1):
        raise ExtractError("actOnRuleDependency: unexpected shape: " + ad[:200])
    # anything between the normalisation and the call is a condition under which an entry is NOT recorded
    discovered_unconditional = ad == pre_ad + call_ad
    for other in ("actOnRuleStart", "actOnRuleEnd"):
        if nows(function_body(pd, r"virtual\s+void\s+%s\s*\([^)]*\)\s*override" % other)) != "":
            raise ExtractError("DepsActions::%s is not empty" % other)
    # 8 buildCommandIsResultValid guards
    m = re.search(r"static\s+bool\s+buildCommandIsResultValid\s*\(([^)]*)\)\s*\{", src)
    if not m:
        raise ExtractError("buildCommandIsResultValid not found")
    vb, _ = find_block(src, m.end() - 1)
    used.append(vb)
    v = nows(vb)
    pre = "BuildValuevalue=BuildValue::fromValue(valueData);"
    if not v.startswith(pre):
        raise ExtractError("buildCommandIsResultValid: prologue")
    v = v[len(pre):]
    guards = []
    steps = [("if(!value.isSuccessfulCommand())returnfalse;", "notSuccessful"),
             ("if(!command->hasGeneratorFlag()){if(value.getCommandHash()!=CommandSignature(command->getCommandString()))returnfalse;}", "hashDiffersUnlessGenerator"),
             ("if(value.getCommandHash()!=CommandSignature(command->getCommandString()))returnfalse;", "hashDiffers")]
    progress = True
    while progress:
        progress = False
        for text, g in steps:
            if v.startswith(text):
                guards.append(g)
                v = v[len(text):]
                progress = True
    loop = "for(unsignedi=0,e=command->getOutputs().size();i!=e;++i){autoinfo=FileInfo::getInfoForPath(command->getOutputs()[i]->getCanonicalPath());"
    if not v.startswith(loop):
        raise ExtractError("buildCommandIsResultValid: output loop header (after guards %s)" % guards)
    v = v[len(loop):]
    lsteps = [("if(info.isMissing())returnfalse;", "outputMissing"),
              ("if(info.isMissing()&&!(isPhony&&!command->getInputs().empty()))returnfalse;", "outputMissingUnlessAlias"),
              ("if(value.getNthOutputInfo(i)!=info)returnfalse;", "outputInfoDiffers")]
    progress = True
    while progress:
        progress = False
        for text, g in lsteps:
            if v.startswith(text):
                guards.append(g)
                v = v[len(text):]
                progress = True
    if v != "}returntrue;":
        raise ExtractError("buildCommandIsResultValid: unknown statement: " + v[:120])
    # 9 key of input rules
    m = re.search(r"new\s+NinjaInputRule\(\s*([^,]+?)\s*,\s*context\s*,\s*node\s*\)", src)
    if not m:
        raise ExtractError("NinjaInputRule construction")
    used.append(m.group(0))
    keyexpr = nows(m.group(1))
    if keyexpr in ("key", "node->getCanonicalPath()"):
        input_key_requested = True
    elif keyexpr == "node->getScreenPath()":
        input_key_requested = False
    else:
        raise ExtractError("NinjaInputRule key expression: " + keyexpr)
    if not re.search(r"ninja::Node\s*\*\s*node\s*=\s*context->manifest->findOrCreateNode\(workingDirectory\s*,\s*key\.str\(\)\)", src):
        raise ExtractError("lookupRule: node lookup")
    # 10 signature of a command rule (F56)
    rule_cls = re.search(r"class\s+NinjaBuildCommandRule\s*:\s*public\s+core::Rule\s*\{", src)
    if not rule_cls:
        raise ExtractError("class NinjaBuildCommandRule")
    cls_body, _ = find_block(src, rule_cls.end() - 1)
    used.append(cls_body)
    m = re.search(r"NinjaBuildCommandRule\s*\(\s*const\s+core::KeyType\s*&\s*key\s*,\s*BuildContext\s*&\s*context\s*,\s*"
                  r"ninja::Command\s*\*\s*command\s*\)\s*:\s*core::Rule\((.*?)\)\s*,\s*context\(context\)", cls_body, re.S)
    if not m:
        raise ExtractError("NinjaBuildCommandRule constructor")
    base_args = nows(m.group(1))
    if base_args == "key":
        sig_fields = []
    elif base_args == "key,inputsSignature(command)":
        sb = nows(function_body(cls_body, r"static\s+basic::CommandSignature\s+inputsSignature\s*\(\s*ninja::Command\s*\*\s*command\s*\)"))
        mm = re.fullmatch(r'basic::CommandSignaturesig\("[^"]*"\);(.*)returnsig;', sb)
        if not mm:
            raise ExtractError("inputsSignature: unexpected body")
        rest, sig_fields = mm.group(1), []
        table = [("sig.combine(command->getNumExplicitInputs());", "numExplicit"),
                 ("sig.combine(command->getNumImplicitInputs());", "numImplicit"),
                 ("for(constauto*input:command->getInputs())sig.combine(input->getCanonicalPath());", "inputPaths")]
        while rest:
            for text, name in table:
                if rest.startswith(text):
                    sig_fields.append(name)
                    rest = rest[len(text):]
                    break
            else:
                raise ExtractError("inputsSignature: unknown statement: " + rest[:100])
        # the model knows two shapes: no signature, or counts of the explicit and implicit inputs + every path in order
        if sig_fields != ["numExplicit", "numImplicit", "inputPaths"]:
            raise ExtractError("inputsSignature: fields %s (the model covers [] and [numExplicit, numImplicit, inputPaths])" % sig_fields)
    else:
        raise ExtractError("NinjaBuildCommandRule: base initialiser core::Rule(%s)" % base_args)
    # the engine side (lib/Core/BuildEngine.cpp), as the world model has it: the scan tests never-built, then the signature,
    # then isResultValid; the prior value is handed over only under an equal signature; taskIsComplete stores the rule's
    # signature and compares the new value with the stored one whatever its signature was.  Fails closed on another shape.
    eng = nows(strip_comments(read(ENGINE_REL)))
    i1 = eng.find("if(ruleInfo.result.builtAt==0){")
    i2 = eng.find("if(ruleInfo.rule->signature!=ruleInfo.result.signature){")
    i3 = eng.find("if(!ruleInfo.rule->isResultValid(buildEngine,ruleInfo.result.value)){")
    if not (0 <= i1 < i2 < i3):
        raise ExtractError("BuildEngine scan: order of the never-built / signature / validity tests")
    if "if(ruleInfo.result.builtAt!=0&&ruleInfo.rule->signature==ruleInfo.result.signature){" not in eng:
        raise ExtractError("BuildEngine: condition for providing the prior value")
    if "ruleInfo->result.signature=ruleInfo->rule->signature;if(!forceChange&&value==ruleInfo->result.value){" not in eng:
        raise ExtractError("BuildEngine taskIsComplete: signature update / value comparison")
    engine_used = [eng[i1:i1 + 40], eng[i2:i2 + 60], eng[i3:i3 + 80]]
    b = lambda x: "true" if x else "false"
    # manifest self-regeneration (executeNinjaBuildCommand): at most two iterations; the first brings the manifest
    # up to date and reloads it when <condition>
    drv = function_body(src, r"int\s+commands::executeNinjaBuildCommand\s*\(\s*std::vector<std::string>\s+args\s*\)")
    mloop = re.search(r"for\s*\(\s*int\s+iteration\s*=\s*0\s*;\s*iteration\s*!=\s*(\d+)\s*;\s*\+\+iteration\s*\)\s*\{", drv)
    if not mloop:
        raise ExtractError("executeNinjaBuildCommand: iteration loop not recognised")
    max_iterations = int(mloop.group(1))
    loop_body, _ = find_block(drv, mloop.end() - 1)
    mreg = re.search(r"if\s*\(\s*autoRegenerateManifest\s*&&\s*iteration\s*==\s*0\s*\)\s*\{", loop_body)
    if not mreg:
        raise ExtractError("executeNinjaBuildCommand: regeneration guard not recognised")
    reg_body, _ = find_block(loop_body, mreg.end() - 1)
    used.append(mloop.group(0))
    used.append(reg_body)
    mcond = re.search(r"context\.engine\.build\(StringRef\(absManifestPath\)\);if\((.*)\)\{continue;\}$", nows(reg_body))
    if not mcond:
        raise ExtractError("executeNinjaBuildCommand: reload decision not recognised")
    reload_if_any_command_ran = mcond.group(1) == "context.numBuiltCommands"
    # the counter is bumped exactly once, on the path that actually runs a command (after every shortcut returned)
    ia = nows(task)
    counts_every_run = ia.count("++context.numBuiltCommands;") == 1 and src.count("numBuiltCommands") == 4 and \
        "++context.numBuiltCommands;" in ia[ia.find("canUpdateIfNewerWithResult(result)"):]
    tail = nows(loop_body)
    stops_after_first = tail.endswith("if(iteration==0)break;")
    L = ["namespace LLBuild.NinjaBuild.Gen", "",
         "/-- `BuildValue::BuildValueKind` -/",
         "inductive Kind", ] + ["  | %s" % lc(k) for k, _ in kinds] + ["  deriving DecidableEq, Repr, Inhabited", "",
         "def Kind.ordinal : Kind → Nat"] + ["  | .%s => %d" % (lc(k), o) for k, o in kinds] + ["",
         "def Kind.all : List Kind := [%s]" % ", ".join("." + lc(k) for k, _ in kinds), "",
         "inductive Cmp | lt | le | gt | ge", "  deriving DecidableEq, Repr", "",
         "inductive ReqKind | request | mustFollow | requestSingleUse", "  deriving DecidableEq, Repr", "",
         "inductive Guard | notSuccessful | hashDiffersUnlessGenerator | hashDiffers | outputMissing | outputMissingUnlessAlias | outputInfoDiffers",
         "  deriving DecidableEq, Repr", "",
         "/-- what `NinjaBuildCommandRule::inputsSignature` combines -/",
         "inductive SigField | numExplicit | numImplicit | inputPaths", "  deriving DecidableEq, Repr", "",
         "inductive Decision | cancelled | phony | updateIfNewer | simulate | skip | run", "  deriving DecidableEq, Repr", "",
         "/-- `provideValue`: kinds of an input value that do NOT make the consumer skip -/",
         "def okInputKinds : List Kind := [%s]" % ", ".join("." + lc(k) for k in ok_kinds),
         "/-- `provideValue`: the kind that additionally sets `hasMissingInput` -/",
         "def missingInputKind : Kind := .%s" % lc(missing_kind),
         "/-- `provideValue`: a failed / skipped / missing input also clears `canUpdateIfNewer` (F43) -/",
         "def badInputDisablesUpdateIfNewer : Bool := %s" % b(bad_input_no_shortcut),
         "/-- `provideValue`: `if (outputInfo.modTime <op> newestModTime) newestModTime = outputInfo.modTime` -/",
         "def newestCmp : Cmp := .%s" % newest_cmp,
         "/-- `canUpdateIfNewerWithResult`: the shortcut is refused when `outputInfo.modTime <op> newestModTime` -/",
         "def refuseCmpStrict : Cmp := .%s" % strict_cmp,
         "def refuseCmpNonStrict : Cmp := .%s" % nonstrict_cmp,
         "/-- `start()`: the engine call issued for each class of inputs -/",
         "def explicitReq : ReqKind := .%s" % reqs["explicitInputs"],
         "def implicitReq : ReqKind := .%s" % reqs["implicitInputs"],
         "def orderOnlyReq : ReqKind := .%s" % reqs["orderOnlyInputs"],
         "/-- constructor: a command with a deps style can never take the update-if-newer shortcut -/",
         "def depsDisableUpdateIfNewer : Bool := %s" % b(deps_disable),
         "/-- the guard that clears `canUpdateIfNewer` in `inputsAvailable` -/",
         "def shortcutGeneratorExempt : Bool := %s" % b(gen_exempt),
         "def shortcutRequiresPrior : Bool := %s" % b(prior_req),
         "def shortcutComparesHash : Bool := %s" % b(hash_cmp),
         "/-- phony commands complete with Skipped when an input failed or is missing -/",
         "def phonyPropagatesSkip : Bool := %s" % b(phony_skip),
         "/-- order of the decisions of `inputsAvailable` -/",
         "def decisionOrder : List Decision := [%s]" % ", ".join("." + d for d in decision_order),
         "/-- `ti.complete(result, /*ForceChange=*/!command->hasRestatFlag())` -/",
         "def forceIsNotRestat : Bool := %s" % b(force_not_restat),
         "/-- `DepsActions::actOnRuleDependency`: nothing stands between the normalisation of a depfile entry and `ti.discoveredDependency` -/",
         "def discoveredUnconditional : Bool := %s" % b(discovered_unconditional),
         "/-- guards of `buildCommandIsResultValid` in source order (each one returns false) -/",
         "def validGuards : List Guard := [%s]" % ", ".join("." + g for g in guards),
         "/-- input rules are registered under the key they are requested (and stored) under -/",
         "def inputRuleKeyIsRequestedKey : Bool := %s" % b(input_key_requested),
         "/-- the signature `NinjaBuildCommandRule` hands to `core::Rule` ([] = none: `core::Rule(key)`) (F56) -/",
         "def ruleSignatureFields : List SigField := [%s]" % ", ".join("." + f for f in sig_fields),
         "/-- `executeNinjaBuildCommand`: the manifest is loaded at most this many times -/",
         "def maxIterations : Nat := %d" % max_iterations,
         "/-- after bringing the manifest up to date in iteration 0 the driver reloads it iff `context.numBuiltCommands` is non-zero -/",
         "def reloadIfAnyCommandRan : Bool := %s" % b(reload_if_any_command_ran),
         "/-- `numBuiltCommands` is incremented once, on the path on which a command is actually run -/",
         "def builtCounterCountsEveryRun : Bool := %s" % b(counts_every_run),
         "/-- an iteration that was not cut short by the reload is the last one (`if (iteration == 0) break;`) -/",
         "def stopsAfterUnreloadedIteration : Bool := %s" % b(stops_after_first), "",
         "end LLBuild.NinjaBuild.Gen"]
    return write_generated("NinjaBuildTables", "\n".join(L) + "\n", [(REL, "\n".join(used)), (ENGINE_REL, "\n".join(engine_used))])


if __name__ == "__main__":
    print(run())
