"""X6: lib/Core/MakefileDepsParser.cpp + lib/Core/DependencyInfoParser.cpp -> Generated/DepsTables.lean

Extracted (everything table-like the C11 / C19-deps models depend on):
  * isWordChar: the `case` labels that return false
  * lexWord: the set of characters after a backslash that are emitted without the backslash
  * skipWhitespaceAndComments / skipNonNewlineWhitespace: the whitespace sets, the comment introducer,
    and the comparison operator of the inner comment loop (`!=` scans to the newline, `==` is defect F18)
  * structural fingerprints of the two bounds guards (F11: trailing backslash in lexWord,
    F12: opcode is the last byte in DependencyInfoParser::parse) as booleans the model branches on
  * DependencyInfoParser: the Opcode enum (name -> value) and the diagnostic strings of both parsers
  * lib/BuildSystem/ShellCommand.cpp, processDependencyInfoDiscoveredDependencies()::DepsActions::actOnInput: does the node key
    of an input record get the command's working directory in front of a relative path (as the Makefile-style
    actOnRuleDependency does) or is the operand used as it is (= relative to the process's current directory)
Fails closed (ExtractError) on any shape it does not understand.
"""
import re
from xcommon import *

CHAR = r"'((?:[^'\\]|\\.)+)'"


def char_val(lit):
    bs = c_string_bytes(lit)
    if len(bs) != 1:
        raise ExtractError("character literal %r is not one byte" % lit)
    return bs[0]


def cmp_set(expr, var="c"):
    """`c == 'x' || c == 'y' ...` -> [bytes]; the whole expression must have that shape."""
    parts = [p.strip() for p in expr.split("||")]
    out = []
    for p in parts:
        m = re.fullmatch(re.escape(var) + r"\s*==\s*" + CHAR, p)
        if not m:
            raise ExtractError("unexpected comparison %r" % p)
        out.append(char_val(m.group(1)))
    return out


def makefile():
    rel = "lib/Core/MakefileDepsParser.cpp"
    src = strip_comments(read(rel))
    used = []
    # --- isWordChar
    body = function_body(src, r"static\s+bool\s+isWordChar\s*\(\s*int\s+c\s*\)")
    used.append(body)
    m = re.fullmatch(r"\s*switch\s*\(\s*c\s*\)\s*\{((?:\s*case\s+" + CHAR + r"\s*:)+)\s*return\s+false\s*;\s*default\s*:\s*return\s+true\s*;\s*\}\s*", body, re.S)
    if not m:
        raise ExtractError("isWordChar: unexpected shape")
    nonword = [char_val(x) for x in re.findall(r"case\s+" + CHAR, m.group(1))]
    # --- skipWhitespaceAndComments
    body = function_body(src, r"static\s+void\s+skipWhitespaceAndComments\s*\(\s*const\s+char\s*\*\s*&\s*cur\s*,\s*const\s+char\s*\*\s*end\s*\)")
    used.append(body)
    m = re.fullmatch(r"\s*for\s*\(\s*;\s*cur\s*!=\s*end\s*;\s*\+\+cur\s*\)\s*\{\s*int\s+c\s*=\s*\*cur\s*;\s*"
                     r"if\s*\(\s*c\s*==\s*" + CHAR + r"\s*\)\s*\{\s*while\s*\(\s*cur\s*\+\s*1\s*!=\s*end\s*&&\s*cur\[1\]\s*(==|!=)\s*" + CHAR +
                     r"\s*\)\s*\+\+cur\s*;\s*continue\s*;\s*\}\s*if\s*\(([^()]*)\)\s*continue\s*;\s*break\s*;\s*\}\s*", body, re.S)
    if not m:
        raise ExtractError("skipWhitespaceAndComments: unexpected shape")
    comment_char = char_val(m.group(1))
    comment_ne = m.group(2) == "!="
    comment_stop = char_val(m.group(3))
    ws_all = cmp_set(m.group(4))
    # --- skipNonNewlineWhitespace
    body = function_body(src, r"static\s+void\s+skipNonNewlineWhitespace\s*\(\s*const\s+char\s*\*\s*&\s*cur\s*,\s*const\s+char\s*\*\s*end\s*\)")
    used.append(body)
    m = re.fullmatch(r"\s*for\s*\(\s*;\s*cur\s*!=\s*end\s*;\s*\+\+cur\s*\)\s*\{\s*int\s+c\s*=\s*\*cur\s*;\s*"
                     r"if\s*\(([^()]*)\)\s*continue\s*;\s*"
                     r"if\s*\(\s*c\s*==\s*'\\\\'\s*&&\s*cur\s*\+\s*1\s*!=\s*end\s*&&\s*cur\[1\]\s*==\s*'\\n'\s*\)\s*\{\s*\+\+cur\s*;\s*continue\s*;\s*\}\s*"
                     r"if\s*\(\s*c\s*==\s*'\\\\'\s*&&\s*cur\s*\+\s*2\s*<\s*end\s*&&\s*cur\[1\]\s*==\s*'\\r'\s*&&\s*cur\[2\]\s*==\s*'\\n'\s*\)\s*\{\s*cur\s*\+=\s*2\s*;\s*continue\s*;\s*\}\s*"
                     r"break\s*;\s*\}\s*", body, re.S)
    if not m:
        raise ExtractError("skipNonNewlineWhitespace: unexpected shape")
    ws_nn = cmp_set(m.group(1))
    # --- skipToEndOfLine
    body = function_body(src, r"static\s+void\s+skipToEndOfLine\s*\(\s*const\s+char\s*\*\s*&\s*cur\s*,\s*const\s+char\s*\*\s*end\s*\)")
    used.append(body)
    if not re.fullmatch(r"\s*for\s*\(\s*;\s*cur\s*!=\s*end\s*;\s*\+\+cur\s*\)\s*\{\s*int\s+c\s*=\s*\*cur\s*;\s*if\s*\(\s*c\s*==\s*'\\n'\s*\)\s*\{\s*\+\+cur\s*;\s*break\s*;\s*\}\s*\}\s*", body, re.S):
        raise ExtractError("skipToEndOfLine: unexpected shape")
    # --- lexWord (the non-Windows text: drop the #if defined(_WIN32) block)
    body = function_body(src, r"static\s+void\s+lexWord\s*\(\s*const\s+char\s*\*\s*&\s*cur\s*,\s*const\s+char\s*\*\s*end\s*,\s*SmallVectorImpl<char>\s*&\s*unescapedWord\s*\)")
    used.append(body)
    b = re.sub(r"#if\s+defined\(_WIN32\).*?#endif", "", body, flags=re.S)
    m = re.fullmatch(
        r"\s*for\s*\(\s*;\s*cur\s*!=\s*end\s*;\s*\+\+cur\s*\)\s*\{\s*int\s+c\s*=\s*\*cur\s*;\s*"
        r"if\s*\(\s*c\s*==\s*'\\\\'\s*\)\s*\{\s*"
        r"if\s*\(\s*cur\s*\+\s*1\s*!=\s*end\s*&&\s*cur\[1\]\s*==\s*'\\n'\s*\)\s*break\s*;\s*"
        r"\+\+cur\s*;\s*(?P<guard>if\s*\(\s*cur\s*==\s*end\s*\)\s*\{\s*unescapedWord\.push_back\(\s*'\\\\'\s*\)\s*;\s*break\s*;\s*\}\s*)?"
        r"int\s+c\s*=\s*\*cur\s*;\s*"
        r"if\s*\((?P<esc>[^()]*)\)\s*\{\s*unescapedWord\.push_back\(\s*c\s*\)\s*;\s*\}\s*else\s*\{\s*unescapedWord\.push_back\(\s*'\\\\'\s*\)\s*;\s*unescapedWord\.push_back\(\s*c\s*\)\s*;\s*\}\s*continue\s*;\s*\}\s*"
        r"else\s+if\s*\(\s*c\s*==\s*'\$'\s*&&\s*cur\s*\+\s*1\s*!=\s*end\s*&&\s*cur\[1\]\s*==\s*'\$'\s*\)\s*\{\s*unescapedWord\.push_back\(\s*c\s*\)\s*;\s*\+\+cur\s*;\s*continue\s*;\s*\}\s*"
        r"if\s*\(\s*!\s*isWordChar\(\s*c\s*\)\s*\)\s*\{\s*break\s*;\s*\}\s*unescapedWord\.push_back\(\s*c\s*\)\s*;\s*\}\s*", b, re.S)
    if not m:
        raise ExtractError("lexWord: unexpected shape")
    esc_lit = cmp_set(m.group("esc"))
    f11_guard = m.group("guard") is not None
    # --- parse: diagnostics in order of appearance, and the colon handling
    body = function_body(src, r"void\s+MakefileDepsParser::parse\s*\(\s*\)")
    used.append(body)
    msgs = re.findall(r"actions\.error\(\s*\"((?:[^\"\\]|\\.)*)\"", body)
    if len(msgs) != 3:
        raise ExtractError("MakefileDepsParser::parse: expected 3 diagnostics, found %d" % len(msgs))
    if not re.search(r"while\s*\(\s*cur\s*!=\s*end\s*&&\s*\*cur\s*==\s*':'\s*\)\s*\{\s*unescapedWord\.push_back\(\s*\*cur\s*\)\s*;\s*\+\+cur\s*;\s*lexWord\(\s*cur\s*,\s*end\s*,\s*unescapedWord\s*\)\s*;\s*\}", body):
        raise ExtractError("MakefileDepsParser::parse: ':' continuation loop not found")
    if not re.search(r"if\s*\(\s*cur\s*==\s*end\s*\|\|\s*\*cur\s*!=\s*':'\s*\)", body) or \
       not re.search(r"if\s*\(\s*cur\s*==\s*end\s*\|\|\s*\*cur\s*==\s*'\\n'\s*\)\s*break", body) or \
       not re.search(r"if\s*\(\s*ignoreSubsequentOutputs\s*\)\s*break\s*;", body):
        raise ExtractError("MakefileDepsParser::parse: unexpected shape")
    return rel, "\n".join(used), dict(nonword=nonword, comment_char=comment_char, comment_ne=comment_ne, comment_stop=comment_stop,
                                     ws_all=ws_all, ws_nn=ws_nn, esc_lit=esc_lit, f11_guard=f11_guard, msgs=msgs)


def depinfo():
    rel = "lib/Core/DependencyInfoParser.cpp"
    src = strip_comments(read(rel))
    m = re.search(r"enum\s+class\s+Opcode\s*:\s*uint8_t\s*\{(.*?)\}\s*;", src, re.S)
    if not m:
        raise ExtractError("Opcode enum not found")
    enum_text = m.group(1)
    ops = {}
    for item in [x.strip() for x in enum_text.split(",") if x.strip()]:
        mm = re.fullmatch(r"(\w+)\s*=\s*(0x[0-9a-fA-F]+|\d+)", item)
        if not mm:
            raise ExtractError("Opcode enumerator %r" % item)
        ops[mm.group(1)] = int(mm.group(2), 0)
    if sorted(ops) != ["Input", "Missing", "Output", "Version"]:
        raise ExtractError("Opcode enumerators changed: %s" % sorted(ops))
    body = function_body(src, r"void\s+DependencyInfoParser::parse\s*\(\s*\)")
    msgs = re.findall(r"actions\.error\(\s*\"((?:[^\"\\]|\\.)*)\"", body)
    # shape of the record loop up to the operand scan
    m = re.search(r"while\s*\(\s*cur\s*!=\s*end\s*\)\s*\{\s*const\s+char\s*\*\s*opcodeStart\s*=\s*cur\s*;\s*auto\s+opcode\s*=\s*Opcode\(\s*\*cur\+\+\s*\)\s*;\s*"
                  r"(?P<guard>if\s*\(\s*cur\s*==\s*end\s*\)\s*\{\s*actions\.error\(\s*\"empty operand\"\s*,\s*opcodeStart\s*-\s*data\.data\(\)\s*\)\s*;\s*break\s*;\s*\}\s*)?"
                  r"const\s+char\s*\*\s*operandStart\s*=\s*cur\s*;\s*while\s*\(\s*\*cur\s*!=\s*'\\0'\s*\)\s*\{\s*\+\+cur\s*;", body, re.S)
    if not m:
        raise ExtractError("DependencyInfoParser::parse: record loop has an unexpected shape")
    f12_guard = m.group("guard") is not None
    if not re.search(r"if\s*\(\s*!\s*data\.endswith\(\s*StringRef\(\s*\"\\0\"\s*,\s*1\s*\)\s*\)\s*\)", body) or \
       not re.search(r"if\s*\(\s*Opcode\(\s*data\[0\]\s*\)\s*!=\s*Opcode::Version\s*\)", body):
        raise ExtractError("DependencyInfoParser::parse: leading validation has an unexpected shape")
    cases = re.findall(r"case\s+Opcode::(\w+)\s*:\s*\{(.*?)break\s*;\s*\}\s*(?=case\s|default\s*:)", body, re.S)
    if not re.search(r"case\s+Opcode::Version\s*:\s*\{\s*if\s*\(\s*opcodeStart\s*!=\s*data\.begin\(\)\s*\)\s*\{\s*actions\.error\(\s*\"invalid duplicate version\"", body):
        raise ExtractError("duplicate-version test has an unexpected shape")
    acts = {}
    for name, text in cases:
        mm = re.findall(r"actions\.(actOn\w+)\(\s*operand\s*\)", text)
        if len(mm) != 1:
            raise ExtractError("case Opcode::%s: expected exactly one actOn call" % name)
        acts[name] = mm[0]
    if acts != {"Version": "actOnVersion", "Input": "actOnInput", "Missing": "actOnMissing", "Output": "actOnOutput"}:
        raise ExtractError("opcode -> action table changed: %s" % acts)
    want = ["missing null terminator", "missing version record"] + (["empty operand"] if f12_guard else []) + \
           ["empty operand", "invalid duplicate version", "unknown opcode in file"]
    if msgs != want:
        raise ExtractError("DependencyInfoParser::parse diagnostics changed: %s" % msgs)
    return rel, enum_text + body, dict(ops=ops, f12_guard=f12_guard, msgs=msgs)


def shellcommand():
    rel = "lib/BuildSystem/ShellCommand.cpp"
    src = strip_comments(read(rel))
    body = function_body(src, r"bool\s+ShellCommand::processDependencyInfoDiscoveredDependencies\s*\([^)]*\)")
    m = re.search(r"virtual\s+void\s+actOnInput\s*\(\s*StringRef\s+path\s*\)\s*override\s*\{", body)
    if not m:
        raise ExtractError("processDependencyInfoDiscoveredDependencies: actOnInput not found")
    act, _ = find_block(body, m.end() - 1)
    norm = re.sub(r"\s+", "", act)
    tail = ("ti.discoveredDependency(BuildKey::makeNode(path).toData());"
            "system.getDelegate().commandFoundDiscoveredDependency(command,path,DiscoveredDependencyKind::Input);")
    resolve = ("SmallString<PATH_MAX>absPath;if(!llvm::sys::path::is_absolute(path)){absPath=StringRef(command->workingDirectory);"
               "llvm::sys::path::append(absPath,path);llvm::sys::fs::make_absolute(absPath);path=absPath;}")
    if norm == tail:
        resolved = False
    elif norm == resolve + tail:
        resolved = True
    else:
        raise ExtractError("processDependencyInfoDiscoveredDependencies::actOnInput has an unexpected shape: %s" % norm[:200])
    return rel, act, dict(di_input_resolved=resolved)


def lb(b):
    return "true" if b else "false"


def run():
    rel1, used1, mk = makefile()
    rel2, used2, di = depinfo()
    rel3, used3, sh = shellcommand()
    if mk["comment_stop"] != 10:
        raise ExtractError("comment loop compares with %d, not with newline" % mk["comment_stop"])
    L = ["namespace LLBuild.Generated", "",
         "/-- `isWordChar`: the bytes for which the switch returns false -/",
         "def mdNonWordChars : List UInt8 := %s" % lean_bytes(mk["nonword"]), "",
         "/-- `lexWord`: after a backslash these bytes are emitted alone; every other byte keeps the backslash -/",
         "def mdEscapeLiteral : List UInt8 := %s" % lean_bytes(mk["esc_lit"]), "",
         "/-- `skipWhitespaceAndComments`: comment introducer and whitespace set -/",
         "def mdCommentChar : UInt8 := %d" % mk["comment_char"],
         "def mdWhitespaceAll : List UInt8 := %s" % lean_bytes(mk["ws_all"]), "",
         "/-- inner comment loop `while (cur + 1 != end && cur[1] OP '\\n')`: true iff OP is `!=` (false = defect F18) -/",
         "def mdCommentLoopNe : Bool := %s" % lb(mk["comment_ne"]), "",
         "/-- `skipNonNewlineWhitespace`: whitespace set -/",
         "def mdWhitespaceNonNewline : List UInt8 := %s" % lean_bytes(mk["ws_nn"]), "",
         "/-- `lexWord`: `if (cur == end) { push '\\\\'; break; }` present after stepping over a backslash (false = defect F11) -/",
         "def mdTrailingBackslashGuard : Bool := %s" % lb(mk["f11_guard"]), "",
         "/-- diagnostics of `MakefileDepsParser::parse`, in source order -/",
         "def mdMessages : List String := [%s]" % ", ".join(lean_str(s) for s in mk["msgs"]), "",
         "/-- `enum class Opcode : uint8_t` of DependencyInfoParser.cpp -/"]
    for k in ("Version", "Input", "Missing", "Output"):
        L.append("def diOp%s : UInt8 := %d" % (k, di["ops"][k]))
    L += ["",
          "/-- `DependencyInfoParser::parse`: `if (cur == end) { error; break; }` present after the opcode read (false = defect F12) -/",
          "def diOperandGuard : Bool := %s" % lb(di["f12_guard"]), "",
          "/-- ShellCommand.cpp, dependency-info `actOnInput`: a relative operand is appended to the command's working directory",
          "before it becomes a node key (false = the operand is the key as it is, i.e. relative to the process's directory) -/",
          "def shDepInfoInputResolved : Bool := %s" % lb(sh["di_input_resolved"]), "",
          "end LLBuild.Generated"]
    return write_generated("DepsTables", "\n".join(L) + "\n", [(rel1, used1), (rel2, used2), (rel3, used3)])


if __name__ == "__main__":
    print(run())
