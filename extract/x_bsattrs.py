"""X4b (C09): the `configure*` functions of every built-in command class -> Generated/BSAttrs.lean.

Source of truth is clang-14's JSON AST (`-ast-dump-filter=Command` on BuildSystem.cpp, ShellCommand.cpp,
ExternalCommand.cpp: the record declarations with their bases, data members and default member initialisers, the
in-class method bodies, and the out-of-line definitions resolved through `parentDeclContextId`).  Every body is
rendered as a canonical skeleton (implicit casts / temporaries / conversion constructors erased, references
resolved to `param:` / `var:` / `this.` / `enum:`), the `if (name == "<literal>") … else …` chain is split into one
statement sequence per attribute name (the statements after the chain are appended to every branch that can
fall through to them), and each sequence must match one of the statement shapes below EXACTLY; the operands of
`ctx.error(..)` are taken from the AST (`operator+` chains of literals / name / value / getName()).  A qualified
`Base::configure*(..)` call is resolved through `referencedMemberDecl` to the class that declares it.

Emits, per class, the table attribute-name literal -> (member assigned, conversion) for the scalar / list / map
overloads and for configureInputs / configureOutputs / configureDescription, the fall-through (base class |
"unexpected attribute" error | accept anything) and the data members with their defaults; and per tool of
`lookupTool` the same with the inheritance chain resolved (`tables`; Lean re-derives it from `classes` and checks
equality by `decide`).  Fails closed (ExtractError) on any statement / expression / type it does not understand.
"""
import json, os, re, subprocess
from concurrent.futures import ThreadPoolExecutor
from xcommon import *

CLANG = "clang++-14"
TUS = ["lib/BuildSystem/BuildSystem.cpp", "lib/BuildSystem/ShellCommand.cpp", "lib/BuildSystem/ExternalCommand.cpp"]
WRAP = ("ImplicitCastExpr", "MaterializeTemporaryExpr", "CXXBindTemporaryExpr", "ExprWithCleanups", "ParenExpr", "ConstantExpr")
HANDLERS = ("configureInputs", "configureOutputs", "configureDescription")
INTERN = r"param:ctx\.getDelegate\(\)\.getInternedString"
LITRE = r'("(?:[^"\\]|\\.)*")'


def ast_dump(rel):
    cmd = [CLANG, "-std=gnu++17", "-fsyntax-only", "-fno-rtti", "-w", "-I" + os.path.join(REPO, "include"),
           "-I" + os.path.join(REPO, "lib"), "-I" + REPO, "-Xclang", "-ast-dump=json",
           "-Xclang", "-ast-dump-filter=Command", os.path.join(REPO, rel)]
    p = subprocess.run(cmd, stdout=subprocess.PIPE, stderr=subprocess.PIPE, text=True)
    if p.returncode != 0:
        raise ExtractError("clang failed on %s: %s" % (rel, p.stderr[-400:]))
    dec, i, docs, txt = json.JSONDecoder(), 0, [], p.stdout
    while True:
        while i < len(txt) and txt[i] in " \r\n\t":
            i += 1
        if i >= len(txt):
            break
        if txt.startswith("Dumping", i):
            i = txt.index("\n", i)
            continue
        o, i = dec.raw_decode(txt, i)
        docs.append(o)
    return docs


def qt(n):
    return (n.get("type") or {}).get("qualType", "")


def kids(n):
    return [c for c in (n.get("inner") or []) if isinstance(c, dict)]


def walk(n):
    yield n
    for c in kids(n):
        yield from walk(c)


def unwrap(n):
    while n.get("kind") in WRAP or (n.get("kind") in ("CXXConstructExpr", "CXXTemporaryObjectExpr", "CXXFunctionalCastExpr",
                                                       "CStyleCastExpr", "CXXStaticCastExpr") and len(kids(n)) == 1):
        n = kids(n)[0]
    return n


class Skel:
    """canonical rendering of statements / expressions; `owner` maps method decl ids to the declaring class"""

    def __init__(self, owner):
        self.owner = owner

    def sk(self, n):
        k, inner = n.get("kind"), kids(n)
        if k in WRAP:
            return self.sk(inner[0])
        if k in ("CXXConstructExpr", "CXXTemporaryObjectExpr"):
            if len(inner) == 1:
                return self.sk(inner[0])
            return "new<%s>(%s)" % (qt(n), ", ".join(self.sk(c) for c in inner))
        if k in ("CXXFunctionalCastExpr", "CStyleCastExpr", "CXXStaticCastExpr"):
            return self.sk(inner[0])
        if k == "DeclRefExpr":
            r = n["referencedDecl"]
            tag = {"ParmVarDecl": "param", "VarDecl": "var", "EnumConstantDecl": "enum", "FunctionDecl": "fn"}.get(r["kind"])
            if tag is None:
                raise ExtractError("reference to a %s (%s) not understood" % (r["kind"], r.get("name")))
            return "%s:%s" % (tag, r["name"])
        if k == "MemberExpr":
            b = self.sk(inner[0])
            if b == "this" and n.get("name", "").startswith("configure"):
                cls = self.owner.get(n.get("referencedMemberDecl"))
                if cls is None:
                    raise ExtractError("call of %s resolves to an unknown declaration" % n.get("name"))
                return "base<%s>.%s" % (cls, n["name"])
            return b + "." + n["name"]
        if k == "CXXThisExpr":
            return "this"
        if k == "CXXMemberCallExpr":
            cal = inner[0]
            if cal.get("kind") == "MemberExpr" and cal["name"].startswith("operator ") and len(inner) == 1:
                return self.sk(kids(cal)[0])        # conversion operator (StringRef -> std::string)
            return "%s(%s)" % (self.sk(cal), ", ".join(self.sk(c) for c in inner[1:]))
        if k == "CXXOperatorCallExpr":
            op = inner[0]
            while op.get("kind") == "ImplicitCastExpr":
                op = kids(op)[0]
            return "%s(%s)" % (op["referencedDecl"]["name"].replace("operator", "op"), ", ".join(self.sk(c) for c in inner[1:]))
        if k == "CallExpr":
            return "%s(%s)" % (self.sk(inner[0]), ", ".join(self.sk(c) for c in inner[1:]))
        if k == "BinaryOperator":
            return "(%s %s %s)" % (self.sk(inner[0]), n["opcode"], self.sk(inner[1]))
        if k == "UnaryOperator":
            return "(%s%s)" % (n["opcode"], self.sk(inner[0]))
        if k == "StringLiteral":
            return n["value"]
        if k == "IntegerLiteral":
            return n["value"]
        if k == "CXXBoolLiteralExpr":
            return "true" if n["value"] else "false"
        if k == "ReturnStmt":
            return "return " + (self.sk(inner[0]) if inner else "")
        if k == "DeclStmt":
            return "; ".join(self.sk(c) for c in inner)
        if k == "VarDecl":
            init = [c for c in inner if c.get("kind") != "FullComment"]
            return "decl %s:%s%s" % (n["name"], re.sub(r"<\d+>", "<N>", qt(n)), (" = " + self.sk(init[0])) if init else "")
        if k == "CompoundStmt":
            return "{ " + " ;; ".join(self.sk(c) for c in inner) + " }"
        if k == "IfStmt":
            s = "if %s then %s" % (self.sk(inner[0]), self.sk(inner[1]))
            if len(inner) > 2:
                s += " else " + self.sk(inner[2])
            return s
        if k == "CXXForRangeStmt":
            rng = [c for c in inner if c.get("kind") == "DeclStmt" and kids(c)[0].get("name", "").startswith("__range")]
            var = [c for c in inner if c.get("kind") == "DeclStmt" and not kids(c)[0].get("isImplicit")]
            if len(rng) != 1 or len(var) != 1:
                raise ExtractError("range-for shape not understood")
            return "for %s in %s do %s" % (kids(var[0])[0]["name"], self.sk(kids(kids(rng[0])[0])[0]), self.sk(inner[-1]))
        if k == "CXXDefaultArgExpr":
            return "default"
        if k == "ContinueStmt":
            return "continue"
        if k == "ForStmt":
            raw = n.get("inner") or []
            if len(raw) != 5 or raw[1]:
                raise ExtractError("for statement shape not understood")
            return "for (%s; %s; %s) do %s" % (self.sk(raw[0]), self.sk(raw[2]), self.sk(raw[3]), self.sk(raw[4]))
        raise ExtractError("AST node kind %s not understood" % k)


def lit_bytes(spelling):
    if not (spelling.startswith('"') and spelling.endswith('"')):
        raise ExtractError("string literal with a prefix: %s" % spelling)
    return c_string_bytes(spelling[1:-1])


def lean_lit(spelling):
    bs = lit_bytes(spelling)
    s = bytes(bs).decode("utf-8")
    return "⟨%s, %s⟩" % (lean_str(s), lean_bytes(bs))


def block(n):
    return kids(n) if n.get("kind") == "CompoundStmt" else [n]


def always_returns(stmts):
    if not stmts:
        return False
    last = stmts[-1]
    if last.get("kind") == "ReturnStmt":
        return True
    if last.get("kind") == "IfStmt" and len(kids(last)) == 3:
        c = kids(last)
        return always_returns(block(c[1])) and always_returns(block(c[2]))
    return False


class Extractor:
    def __init__(self):
        with ThreadPoolExecutor(max_workers=len(TUS)) as ex:
            dumps = list(ex.map(ast_dump, TUS))
        self.records = {}      # class name -> record decl (complete definition)
        self.bodies = {}       # (class, method, kind) -> method decl with a body
        self.owner = {}        # method decl id -> class name
        self.recid = {}
        for docs in dumps:
            ids = {}
            for d in docs:
                if d.get("kind") == "CXXRecordDecl" and d.get("inner") and d.get("completeDefinition"):
                    ids[d["id"]] = d["name"]
                    self.records.setdefault(d["name"], d)
                    for m in kids(d):
                        if m.get("kind") == "CXXMethodDecl":
                            self.owner[m["id"]] = d["name"]
            for d in docs:
                if d.get("kind") == "CXXRecordDecl" and d.get("inner") and d.get("completeDefinition"):
                    for m in kids(d):
                        if m.get("kind") == "CXXMethodDecl" and any(c.get("kind") == "CompoundStmt" for c in kids(m)):
                            self.add_body(d["name"], m)
                elif d.get("kind") == "CXXMethodDecl" and d.get("parentDeclContextId") in ids and \
                        any(c.get("kind") == "CompoundStmt" for c in kids(d)):
                    self.owner[d["id"]] = ids[d["parentDeclContextId"]]
                    self.add_body(ids[d["parentDeclContextId"]], d)
        self.S = Skel(self.owner)
        self.shell_path = self.default_shell_path()
        self.enums = {}

    def add_body(self, cname, m):
        if not (m["name"] == "configureAttribute" or m["name"] in HANDLERS or m["name"] in ("configureBool", "isResultValid")):
            return
        key = (cname, m["name"], self.overload_kind(m))
        old = self.bodies.get(key)
        if old is not None and old.get("range") != m.get("range") and old["id"] != m["id"]:
            if self.S_try(old) != self.S_try(m):
                raise ExtractError("two different bodies for %s::%s (%s)" % key)
        self.bodies[key] = m

    def S_try(self, m):
        return json.dumps([c for c in kids(m) if c.get("kind") == "CompoundStmt"][0].get("range"))

    @staticmethod
    def overload_kind(m):
        ps = [qt(c) for c in kids(m) if c.get("kind") == "ParmVarDecl"]
        last = ps[-1] if ps else ""
        if m["name"] != "configureAttribute":
            return ""
        if "pair" in last:
            return "map"
        if "ArrayRef" in last:
            return "list"
        if last in ("llvm::StringRef", "StringRef"):
            return "scalar"
        raise ExtractError("configureAttribute overload with value type '%s'" % last)

    def default_shell_path(self):
        src = strip_comments(read("include/llbuild/Basic/ExecutionQueue.h"))
        m = re.findall(r'const\s+std::string\s+DefaultShellPath\s*=\s*("(?:[^"\\]|\\.)*")\s*;', src)
        if len(m) != 1 or len(re.findall(r"\bDefaultShellPath\b", src)) != 1:
            raise ExtractError("DefaultShellPath: declaration shape not understood")
        self.shell_src = ("include/llbuild/Basic/ExecutionQueue.h", m[0])
        return m[0]

    # ------------------------------------------------------------------ classes, members
    def base_of(self, cname):
        r = self.records.get(cname)
        if r is None:
            raise ExtractError("class %s not found in the AST" % cname)
        bases = [b["type"]["qualType"].split("::")[-1] for b in r.get("bases", [])]
        bases = [b for b in bases if b != "JobDescriptor"]
        if len(bases) > 1:
            raise ExtractError("class %s has several bases: %s" % (cname, bases))
        return bases[0] if bases else None

    def chain(self, cname):
        out = []
        while cname is not None:
            out.append(cname)
            cname = self.base_of(cname)
        return out

    def enum_ordinals(self, cname):
        r = self.records[cname]
        out = {}
        for e in kids(r):
            if e.get("kind") == "EnumDecl":
                nxt = 0
                for c in kids(e):
                    if c.get("kind") != "EnumConstantDecl":
                        continue
                    init = [x for x in kids(c) if x.get("kind") != "FullComment"]
                    if init:
                        v = init[0].get("value")
                        if init[0].get("kind") != "ConstantExpr" or v is None:
                            raise ExtractError("enumerator %s: initialiser not understood" % c["name"])
                        nxt = int(v)
                    out[c["name"]] = nxt
                    nxt += 1
        return out

    def field_type(self, f):
        t = qt(f).replace("llvm::", "")
        if t == "bool":
            return "bool"
        if t in ("std::string",):
            return "str"
        if re.fullmatch(r"std::vector<(StringRef|std::string)>|SmallVector<std::string, \d+>", t):
            return "strs"
        if t == "std::vector<BuildNode *>":
            return "nodes"
        if re.fullmatch(r"SmallVector<std::pair<StringRef, StringRef>, \d+>", t):
            return "pairs"
        if re.search(r"::DepsStyle$", t):
            return "enum"
        return "other"

    def fields(self, cname):
        """[(name, type kind, Lean MVal default)] of the class's own data members"""
        out = []
        ords = self.enum_ordinals(cname)
        for f in kids(self.records[cname]):
            if f.get("kind") != "FieldDecl":
                continue
            ty = self.field_type(f)
            init = [c for c in kids(f) if c.get("kind") != "FullComment"]
            if ty == "bool":
                if len(init) != 1 or unwrap(init[0]).get("kind") != "CXXBoolLiteralExpr":
                    raise ExtractError("%s::%s: bool member without a literal default" % (cname, f["name"]))
                d = ".bool %s" % ("true" if unwrap(init[0])["value"] else "false")
            elif ty == "str":
                if not init:
                    d = ".str []"
                else:
                    nodes = list(walk(init[0]))
                    lits = [n for n in nodes if n.get("kind") == "StringLiteral"]
                    if len(lits) != 1 or any(n.get("kind") not in WRAP + ("CXXConstructExpr", "StringLiteral", "CXXDefaultArgExpr") for n in nodes):
                        ty, d = "other", ".undef"      # computed default: not modelled; `need` fails closed if a handler assigns it
                    else:
                        d = ".str %s" % lean_bytes(lit_bytes(lits[0]["value"]))
            elif ty in ("strs", "nodes"):
                if init and not (unwrap(init[0]).get("kind") in ("CXXConstructExpr",) and not kids(unwrap(init[0]))):
                    raise ExtractError("%s::%s: list member with a non-empty default" % (cname, f["name"]))
                d = ".strs []"
            elif ty == "pairs":
                if init:
                    raise ExtractError("%s::%s: map member with a default" % (cname, f["name"]))
                d = ".pairs []"
            elif ty == "enum":
                i0 = unwrap(init[0]) if init else {}
                nm = (i0.get("referencedDecl") or {}).get("name")
                if nm not in ords:
                    raise ExtractError("%s::%s: enum member default not understood" % (cname, f["name"]))
                d = ".nat %d" % ords[nm]
            else:
                d = ".undef"
            out.append((f["name"], ty, d))
        return out

    # ------------------------------------------------------------------ messages
    def msg(self, n):
        n = unwrap(n)
        if n.get("kind") == "CXXOperatorCallExpr":
            op = kids(n)[0]
            while op.get("kind") == "ImplicitCastExpr":
                op = kids(op)[0]
            if op["referencedDecl"]["name"] == "operator+" and len(kids(n)) == 3:
                return self.msg(kids(n)[1]) + self.msg(kids(n)[2])
        if n.get("kind") == "StringLiteral":
            return [".lit %s" % lean_lit(n["value"])]
        s = self.S.sk(n)
        if s == "param:name":
            return [".attrName"]
        if s == "param:value":
            return [".attrValue"]
        if s == "this.getName()":
            return [".cmdName"]
        if re.fullmatch(r"var:\w+\.getName\(\)|op\[\]\(param:value, 1\)\.getName\(\)", s):
            return [".nodeName"]
        raise ExtractError("operand of ctx.error not understood: %s" % s)

    def errors_in(self, stmts):
        """(skeleton with every `ctx.error(<arg>)` replaced by ERR, [Msg] in source order)"""
        msgs = []
        for s in stmts:
            for n in walk(s):
                if n.get("kind") == "CXXMemberCallExpr":
                    cal = kids(n)[0]
                    if cal.get("kind") == "MemberExpr" and cal.get("name") == "error" and self.S.sk(kids(cal)[0]) == "param:ctx":
                        if len(kids(n)) != 2:
                            raise ExtractError("ctx.error with %d arguments" % (len(kids(n)) - 1))
                        msgs.append("[" + ", ".join(self.msg(kids(n)[1])) + "]")
        text = " ;; ".join(self.S.sk(s) for s in stmts)
        out, i, cnt = [], 0, 0
        while True:
            j = text.find("param:ctx.error(", i)
            if j < 0:
                out.append(text[i:])
                break
            out.append(text[i:j] + "ERR")
            k, depth, instr = j + len("param:ctx.error("), 1, False
            while depth:
                ch = text[k]
                if instr:
                    if ch == "\\":
                        k += 1
                    elif ch == '"':
                        instr = False
                elif ch == '"':
                    instr = True
                elif ch == "(":
                    depth += 1
                elif ch == ")":
                    depth -= 1
                k += 1
            i = k
            cnt += 1
        if cnt != len(msgs):
            raise ExtractError("ctx.error calls: %d in the skeleton, %d in the AST" % (cnt, len(msgs)))
        return "".join(out), msgs

    # ------------------------------------------------------------------ statement shapes
    def need(self, cname, member, *types):
        for c in self.chain(cname):
            for nm, ty, _ in self.fields(c):
                if nm == member:
                    if ty not in types:
                        raise ExtractError("%s: member %s has type kind %s, expected %s" % (cname, member, ty, "/".join(types)))
                    return member
        raise ExtractError("%s: '%s' is not a data member of the class chain" % (cname, member))

    def scalar_conv(self, cname, stmts):
        sk, E = self.errors_in(stmts)
        L = LITRE
        m = re.fullmatch(r"op=\(this\.(\w+), param:value\) ;; return true", sk)
        if m:
            return [(self.need(cname, m[1], "str"), ".verbatim")]
        m = re.fullmatch(r"this\.(\w+)\.clear\(\) ;; ((?:this\.\w+\.push_back\(%s\((?:var:DefaultShellPath|%s)\)\) ;; )+)"
                         r"this\.(\w+)\.push_back\(%s\(param:value\)\) ;; return true" % (INTERN, L, INTERN), sk)
        if m:
            pre = re.findall(r"this\.(\w+)\.push_back\(%s\((var:DefaultShellPath|%s)\)\)" % (INTERN, L), m[2])
            if any(p[0] != m[1] for p in pre) or m[m.lastindex] != m[1]:
                raise ExtractError("%s: shell wrapping touches several members" % cname)
            lits = [self.shell_path if p[1] == "var:DefaultShellPath" else p[1] for p in pre]
            return [(self.need(cname, m[1], "strs"), ".shellWrap [%s]" % ", ".join(lean_lit(x) for x in lits))]
        m = re.fullmatch(r"this\.(\w+)\.clear\(\) ;; this\.(\w+)\.emplace_back\(param:value\) ;; return true", sk)
        if m and m[1] == m[2]:
            return [(self.need(cname, m[1], "strs"), ".singleton")]
        m = re.fullmatch(r"if \(op!=\(param:value, %s\) && op!=\(param:value, %s\)\) then \{ ERR ;; return false \} ;; "
                         r"\(this\.(\w+) = op==\(param:value, %s\)\) ;; return true" % (L, L, L), sk)
        if m and m[1] == m[4] and m[1] != m[2]:
            return [(self.need(cname, m[3], "bool"), ".boolStrict %s %s %s" % (lean_lit(m[1]), lean_lit(m[2]), E[0]))]
        m = re.fullmatch(r"\(this\.(\w+) = op==\(param:value, %s\)\) ;; return true" % L, sk)
        if m:
            return [(self.need(cname, m[1], "bool"), ".boolLenient %s" % lean_lit(m[2]))]
        m = re.fullmatch(r"if op==\(param:value, %s\) then \{ \(this\.(\w+) = true\) ;; return true \} else "
                         r"if op==\(param:value, %s\) then \{ \(this\.(\w+) = false\) ;; return true \} else \{ ERR ;; return false \}" % (L, L), sk)
        if m and m[2] == m[4] and m[1] != m[3]:
            return [(self.need(cname, m[2], "bool"), ".boolStrict %s %s %s" % (lean_lit(m[1]), lean_lit(m[3]), E[0]))]
        m = re.fullmatch(r"if \(!base<(\w+)>\.configureBool\(param:ctx, this\.(\w+), param:name, param:value\)\) then return false ;; return true", sk)
        if m:
            if m[1] not in self.chain(cname):
                raise ExtractError("%s calls configureBool of %s" % (cname, m[1]))
            t, f, e = self.configure_bool(m[1])
            return [(self.need(cname, m[2], "bool"), ".boolStrict %s %s %s" % (t, f, e))]
        m = re.fullmatch(r"if op==\(param:value, %s\) then \{ \(this\.(\w+) = enum:(\w+)\) \}((?: else if op==\(param:value, %s\) then "
                         r"\{ \(this\.\w+ = enum:\w+\) \})*) else \{ ERR ;; return false \} ;; return true" % (L, L), sk)
        if m:
            cases = [(m[1], m[2], m[3])] + re.findall(r" else if op==\(param:value, %s\) then \{ \(this\.(\w+) = enum:(\w+)\) \}" % L, m[4])
            if any(c[1] != m[2] for c in cases):
                raise ExtractError("%s: enum chain assigns several members" % cname)
            ords = {}
            for c in self.chain(cname):
                ords.update(self.enum_ordinals(c))
            for c in cases:
                if c[2] not in ords:
                    raise ExtractError("%s: enumerator %s not found" % (cname, c[2]))
            if len({c[0] for c in cases}) != len(cases):
                raise ExtractError("%s: enum chain with a repeated literal" % cname)
            return [(self.need(cname, m[2], "enum"), ".enumStrict [%s] %s" % (", ".join("(%s, %d)" % (lean_lit(c[0]), ords[c[2]]) for c in cases), E[0]))]
        m = re.fullmatch(r"if \((\(*op!=\(param:value, .*\)) then \{ ERR \} ;; op=\(this\.(\w+), param:value\) ;; return true", sk)
        if m:
            allowed = re.findall(r"op!=\(param:value, %s\)" % L, m[1])
            rebuilt = None
            for a in allowed:
                t = "op!=(param:value, %s)" % a
                rebuilt = t if rebuilt is None else "(%s && %s)" % (rebuilt, t)
            if rebuilt is None or "(" + m[1] != rebuilt + "":
                if rebuilt is None or m[1] != rebuilt[1:]:
                    raise ExtractError("%s: value check shape not understood: %s" % (cname, m[1]))
            return [(self.need(cname, m[2], "str"), ".oneOfLenient [%s] %s" % (", ".join(lean_lit(a) for a in allowed), E[0]))]
        m = re.fullmatch(r"decl (\w+):int = 0 ;; if param:value\.getAsInteger\(10, var:(\w+)\) then \{ ERR ;; return false \} ;; "
                         r"if \(var:(\w+) < 0\) then \{ ERR ;; return false \} ;; op=\(this\.(\w+), param:value\) ;; return true", sk)
        if m and m[1] == m[2] == m[3]:
            return [(self.need(cname, m[4], "str"), ".nonNegInt %s %s" % (E[0], E[1]))]
        m = re.fullmatch(r"decl (\w+):SmallVector<llvm::StringRef, \d+> = new<SmallVector<llvm::StringRef, \d+>>\(\) ;; "
                         r"param:value\.split\(var:(\w+), %s, \(-1\), false\) ;; "
                         r"op=\(this\.(\w+), new<std::vector<std::string>>\(var:(\w+)\.begin\(\), var:(\w+)\.end\(\), default\)\) ;; return true" % L, sk)
        if m and m[1] == m[2] == m[5] == m[6]:
            if len(lit_bytes(m[3])) != 1:
                raise ExtractError("%s: split separator %s is not one byte" % (cname, m[3]))
            return [(self.need(cname, m[4], "strs"), ".splitDropEmpty %s" % lean_lit(m[3]))]
        m = re.fullmatch(r"decl (\w+):SmallString<N> = param:value ;; fn:make_absolute\(var:(\w+)\) ;; op=\(this\.(\w+), var:(\w+)\) ;; return true", sk)
        if m and m[1] == m[2] == m[4]:
            return [(self.need(cname, m[3], "str"), ".makeAbsolute")]
        raise ExtractError("%s: scalar attribute branch not understood: %s" % (cname, sk))

    def configure_bool(self, cname):
        for c in [cname]:
            b = self.bodies.get((c, "configureBool", ""))
            if b is not None:
                ps = [(p.get("name"), qt(p)) for p in kids(b) if p.get("kind") == "ParmVarDecl"]
                if [p[0] for p in ps] != ["ctx", "to", "name", "value"] or ps[1][1] != "bool &":
                    raise ExtractError("configureBool: parameters not understood")
                sk, E = self.errors_in(kids([x for x in kids(b) if x.get("kind") == "CompoundStmt"][0]))
                m = re.fullmatch(r"if \(op!=\(param:value, %s\) && op!=\(param:value, %s\)\) then \{ ERR ;; return false \} ;; "
                                 r"\(param:to = op==\(param:value, %s\)\) ;; return true" % (LITRE, LITRE, LITRE), sk)
                if not m or m[1] != m[3] or m[1] == m[2]:
                    raise ExtractError("configureBool: body not understood: %s" % sk)
                return lean_lit(m[1]), lean_lit(m[2]), E[0]
        raise ExtractError("%s: configureBool not found" % cname)

    def list_conv(self, cname, stmts):
        sk, E = self.errors_in(stmts)
        m = re.fullmatch(r"op=\(this\.(\w+), new<std::vector<std::string>>\(param:values\.begin\(\), param:values\.end\(\), default\)\) ;; return true", sk)
        if m:
            return [(self.need(cname, m[1], "strs"), ".listCopy")]
        guard = r"if param:values\.empty\(\) then \{ ERR ;; return false \} ;; "
        copy = r"this\.(\w+)\.clear\(\) ;; this\.(\w+)\.reserve\(param:values\.size\(\)\) ;; for (\w+) in param:values do \{ this\.(\w+)\.emplace_back\(%s\(var:(\w+)\)\) \} ;; return true" % INTERN
        m = re.fullmatch(copy, sk)
        if m and m[1] == m[2] == m[4] and m[3] == m[5]:
            return [(self.need(cname, m[1], "strs"), ".listCopy")]
        m = re.fullmatch(guard + copy, sk)
        if m and m[1] == m[2] == m[4] and m[3] == m[5]:
            return [(self.need(cname, m[1], "strs"), ".listCopyNonEmpty %s" % E[0])]
        m = re.fullmatch(r"this\.(\w+)\.clear\(\) ;; this\.(\w+)\.insert\(this\.(\w+)\.begin\(\), param:values\.begin\(\), param:values\.end\(\)\) ;; return true", sk)
        if m and m[1] == m[2] == m[3]:
            return [(self.need(cname, m[1], "strs"), ".listCopy")]
        m = re.fullmatch(r"this\.(\w+)\.reserve\(param:values\.size\(\)\) ;; for (\w+) in param:values do \{ this\.(\w+)\.emplace_back\(var:(\w+)\.str\(\)\) \} ;; return true", sk)
        if m and m[1] == m[3] and m[2] == m[4]:
            return [(self.need(cname, m[1], "strs"), ".listAppend")]
        raise ExtractError("%s: list attribute branch not understood: %s" % (cname, sk))

    def map_conv(self, cname, stmts):
        sk, E = self.errors_in(stmts)
        m = re.fullmatch(r"this\.(\w+)\.clear\(\) ;; this\.(\w+)\.reserve\(param:values\.size\(\)\) ;; for (\w+) in param:values do "
                         r"\{ this\.(\w+)\.emplace_back\(fn:make_pair\(%s\(var:(\w+)\.first\), %s\(var:(\w+)\.second\)\)\) \} ;; return true" % (INTERN, INTERN), sk)
        if m and m[1] == m[2] == m[4] and m[3] == m[5] == m[6]:
            return [(self.need(cname, m[1], "pairs"), ".mapCopy")]
        raise ExtractError("%s: map attribute branch not understood: %s" % (cname, sk))

    def otherwise(self, cname, kind, stmts):
        sk, E = self.errors_in(stmts)
        arg = "param:value" if kind == "scalar" else "param:values"
        m = re.fullmatch(r"return base<(\w+)>\.configureAttribute\(param:ctx, param:name, %s\)" % arg, sk)
        if m:
            if m[1] != self.base_of(cname):
                raise ExtractError("%s delegates to %s, its base is %s" % (cname, m[1], self.base_of(cname)))
            return ".base %s" % lean_str(m[1])
        if sk == "ERR ;; return false":
            return ".unexpected %s" % E[0]
        if sk == "return true":
            return ".acceptAny"
        raise ExtractError("%s: %s overload, fall-through not understood: %s" % (cname, kind, sk))

    def overload(self, cname, kind):
        b = self.bodies.get((cname, "configureAttribute", kind))
        if b is None:
            return None
        ps = [p.get("name") for p in kids(b) if p.get("kind") == "ParmVarDecl"]
        if ps != ["ctx", "name", "value" if kind == "scalar" else "values"]:
            raise ExtractError("%s::configureAttribute(%s): parameter names %s" % (cname, kind, ps))
        stmts = kids([x for x in kids(b) if x.get("kind") == "CompoundStmt"][0])
        rows, other = [], None
        if stmts and stmts[0].get("kind") == "IfStmt" and self.name_test(kids(stmts[0])[0]) is not None:
            tail = stmts[1:]
            node = stmts[0]
            while True:
                c = kids(node)
                lit = self.name_test(c[0])
                if lit is None:
                    raise ExtractError("%s: condition in the attribute chain is not `name == \"literal\"`: %s" % (cname, self.S.sk(c[0])))
                br = block(c[1])
                rows.append((lit, br if always_returns(br) else br + tail))
                if len(c) == 2:
                    other = tail
                    break
                if c[2].get("kind") == "IfStmt":
                    node = c[2]
                    continue
                eb = block(c[2])
                other = eb if always_returns(eb) else eb + tail
                break
        else:
            other = stmts
        conv = {"scalar": self.scalar_conv, "list": self.list_conv, "map": self.map_conv}[kind]
        seen, out = set(), []
        for lit, seq in rows:
            if lit in seen:
                raise ExtractError("%s: attribute %s tested twice" % (cname, lit))
            seen.add(lit)
            out.append((lit, conv(cname, seq)))
        return out, self.otherwise(cname, kind, other)

    def name_test(self, cond):
        s = self.S.sk(cond)
        m = re.fullmatch(r"op==\(param:name, %s\)" % LITRE, s)
        return m[1] if m else None

    def handler(self, cname, which):
        b = self.bodies.get((cname, which, ""))
        if b is None:
            return None
        stmts = kids([x for x in kids(b) if x.get("kind") == "CompoundStmt"][0])
        ps = [p.get("name") for p in kids(b) if p.get("kind") == "ParmVarDecl"]
        sk, E = self.errors_in(stmts)
        base = None
        m = re.match(r"base<(\w+)>\.%s\(param:ctx, param:value\) ;; " % which, sk)
        if m:
            if m[1] != self.base_of(cname):
                raise ExtractError("%s::%s calls %s, its base is %s" % (cname, which, m[1], self.base_of(cname)))
            base, sk = m[1], sk[m.end():]
            if ps != ["ctx", "value"]:
                raise ExtractError("%s::%s: parameter names %s" % (cname, which, ps))
        if sk == "":
            if base:
                raise ExtractError("%s::%s only calls its base" % (cname, which))
            return None, []
        if which == "configureDescription":
            m = re.fullmatch(r"op=\(this\.(\w+), param:value\)", sk)
            if m and not base:
                return None, [(self.need(cname, m[1], "str"), ".verbatim")]
            raise ExtractError("%s::%s not understood: %s" % (cname, which, sk))
        src = {"configureInputs": "inputs", "configureOutputs": "outputs"}[which]
        getter = {"configureInputs": "getInputs", "configureOutputs": "getOutputs"}[which]
        m = re.fullmatch(r"this\.(\w+)\.reserve\(param:value\.size\(\)\) ;; for (\w+) in param:value do \{ this\.(\w+)\.emplace_back\(var:(\w+)\) \}", sk)
        if m and m[1] == m[3] == src and m[2] == m[4] and not base:
            return None, [(self.need(cname, src, "nodes"), ".nodesAppend")]
        m = re.fullmatch(r"if \(param:value\.size\(\) == 1\) then \{ this\.(\w+)\.push_back\(op\[\]\(param:value, 0\)\) \} else "
                         r"if param:value\.empty\(\) then \{ ERR \} else \{ ERR \}", sk)
        if m and m[1] == src and not base:
            return None, [(self.need(cname, src, "nodes"), ".nodesExactlyOne %s %s" % (E[0], E[1]))]
        m = re.fullmatch(r"for (\w+) in this\.%s\(\) do \{ if \(!var:(\w+)\.isVirtual\(\)\) then \{ this\.(\w+)\.push_back\(var:(\w+)\.getName\(\)\) \} \} ;; "
                         r"if this\.(\w+)\.empty\(\) then \{ ERR \}" % getter, sk)
        if m and m[1] == m[2] == m[4] and m[3] == m[5] and base:
            self.getter_check(getter, src)
            return base, [(self.need(cname, m[3], "strs"), ".nonVirtualNamesOf %s %s" % (lean_str(src), E[0]))]
        m = re.fullmatch(r"for (\w+) in this\.%s\(\) do \{ if \(!var:(\w+)\.isVirtual\(\)\) then \{ if this\.(\w+)\.empty\(\) then "
                         r"\{ op=\(this\.(\w+), var:(\w+)\.getName\(\)\) \} else \{ ERR \} \} \} ;; if this\.(\w+)\.empty\(\) then \{ ERR \}" % getter, sk)
        if m and m[1] == m[2] == m[5] and m[3] == m[4] == m[6] and base:
            self.getter_check(getter, src)
            return base, [(self.need(cname, m[3], "str"), ".firstNonVirtualNameOf %s %s %s" % (lean_str(src), E[0], E[1]))]
        raise ExtractError("%s::%s not understood: %s" % (cname, which, sk))

    def getter_check(self, getter, member):
        src = re.sub(r"\s+", " ", strip_comments(read("include/llbuild/BuildSystem/Command.h")))
        if not re.search(r"virtual const std::vector<BuildNode\*>& %s\(\) const final \{ return %s; \}" % (getter, member), src):
            raise ExtractError("Command::%s() does not return `%s`" % (getter, member))

    def node_rule_check(self):
        """`BuildSystemImpl::createNode` and `BuildNode::isVirtual`: the name rule the model's `isVirtualName` implements"""
        src = re.sub(r"\s+", " ", strip_comments(read("lib/BuildSystem/BuildSystem.cpp")))
        want = (r'BuildSystemImpl::createNode\(StringRef name, bool isImplicit\) \{ if \(name\.endswith\("/"\)\) \{ return BuildNode::makeDirectory\(name\); \} '
                r"if \(!name\.empty\(\) && name\[0\] == '<' && name\.back\(\) == '>'\) \{ return BuildNode::makeVirtual\(name\); \} return BuildNode::makePlain\(name\); \}")
        if not re.search(want, src):
            raise ExtractError("BuildSystemImpl::createNode: shape not understood")
        hdr = re.sub(r"\s+", " ", strip_comments(read("include/llbuild/BuildSystem/BuildNode.h")))
        if not re.search(r"bool isVirtual\(\) const \{ return \(type == NodeType::Virtual\); \}", hdr):
            raise ExtractError("BuildNode::isVirtual: shape not understood")

    # ------------------------------------------------------------------ ExternalCommand::isResultValid
    def result_valid(self, tools):
        """The decision chain of `ExternalCommand::isResultValid` (which stored command results are still valid on a scan):
        the checks before the loop, the per-output steps in order - in particular whether the `is-mutated` branch CONTINUES with
        the next output or RETURNS - and the value returned after the loop.  No command class of a built-in tool between its
        command class and ExternalCommand may override it with a body of another shape (MkdirCommand / SymlinkCommand /
        StaleFileRemovalCommand have their own rule and are listed)."""
        b = self.bodies.get(("ExternalCommand", "isResultValid", ""))
        if b is None:
            raise ExtractError("ExternalCommand::isResultValid not found")
        ps = [p.get("name") for p in kids(b) if p.get("kind") == "ParmVarDecl"]
        if ps != ["system", "value"]:
            raise ExtractError("isResultValid: parameter names %s" % ps)
        stmts = kids([x for x in kids(b) if x.get("kind") == "CompoundStmt"][0])
        sk = " ;; ".join(self.S.sk(x) for x in stmts)
        prior = r"param:value\.getNthOutputInfo\(var:i\)"
        pre = r"if this\.alwaysOutOfDate then return false ;; if \(!param:value\.isSuccessfulCommand\(\)\) then return false ;; "
        head = (r"for \(decl i:unsigned int = 0; decl e:unsigned int = this\.outputs\.size\(\); \(var:i != var:e\); \(\+\+var:i\)\) do \{ "
                r"decl node:(?:[\w:]*::)?BuildNode \* = op\[\]\(this\.outputs, var:i\) ;; if var:node\.isVirtual\(\) then continue ;; "
                r"decl info:(?:[\w:]*::)?FileInfo = var:node\.getFileInfo\(param:system\.getFileSystem\(\)\) ;; ")
        # the `is-mutated` branch as it stands, and the early-return spelling of it (with or without a hoisted `priorInfo`)
        mut_continue = r"if var:node\.isMutated\(\) then \{ if \(%s\.isMissing\(\) != var:info\.isMissing\(\)\) then return false ;; continue \} ;; " % prior
        hoist = r"decl priorInfo:const (?:[\w:]*::)?FileInfo & = %s ;; " % prior
        mut_return = r"if var:node\.isMutated\(\) then return \((?:%s|var:priorInfo)\.isMissing\(\) == var:info\.isMissing\(\)\) ;; " % prior
        cmp_ = r"if op!=\((?:%s|var:priorInfo), var:info\) then return false \} ;; return true" % prior
        if re.fullmatch(pre + head + mut_continue + cmp_, sk):
            mut = ".mutatedExistence true"
        elif re.fullmatch(pre + head + "(?:%s)?" % hoist + mut_return + cmp_, sk):
            mut = ".mutatedExistence false"
        else:
            raise ExtractError("ExternalCommand::isResultValid: body not understood: %s" % sk)
        # which tools run this function: the command class chain up to ExternalCommand must not override it
        own, other = [], []
        for t, c in tools:
            ch = self.chain(c)
            if "ExternalCommand" not in ch:
                other.append(t)
                continue
            over = [x for x in ch[:ch.index("ExternalCommand")] if any(
                m.get("kind") == "CXXMethodDecl" and m.get("name") == "isResultValid" for m in kids(self.records[x]))]
            (other if over else own).append(t)
        rng = b.get("range", {})
        return mut, own, other, (rng.get("begin", {}).get("line"), rng.get("end", {}).get("line"))

    # ------------------------------------------------------------------ tools
    def tools(self):
        src = strip_comments(read("lib/BuildSystem/BuildSystem.cpp"))
        body = function_body(src, r"BuildSystemFileDelegate::lookupTool\(StringRef name\)")
        pairs = re.findall(r'name\s*==\s*"([^"]+)"\s*\)\s*\{\s*return\s+llvm::make_unique<(\w+)>\(name\);', body)
        if len(pairs) != len(re.findall(r"make_unique<", body)) or len(pairs) != len(re.findall(r"name\s*==", body)) or not pairs:
            raise ExtractError("lookupTool: shape not understood")
        out = []
        for tname, tcls in pairs:
            ms = list(re.finditer(r"\bclass %s\b[^{;]*\{" % tcls, src))
            if len(ms) != 1:
                raise ExtractError("tool class %s: %d definitions" % (tcls, len(ms)))
            tbody, _ = find_block(src, ms[0].end() - 1)
            cb = function_body(tbody, r"createCommand\(StringRef name\)\s*override")
            mk = re.findall(r"make_unique<(\w+)>\(name\b", cb)
            if len(mk) != 1 or len(re.findall(r"make_unique<", cb)) != 1:
                raise ExtractError("%s::createCommand: shape not understood" % tcls)
            out.append((tname, mk[0]))
        return out


def lean_assigns(asg):
    return "[%s]" % ", ".join("⟨%s, %s⟩" % (lean_str(m), c) for m, c in asg)


def lean_overload(ov, indent):
    rows, other = ov
    pad = " " * indent
    rs = (",\n" + pad + "    ").join("⟨%s, %s⟩" % (lean_lit(lit), lean_assigns(a)) for lit, a in rows)
    return "⟨[%s%s],\n%s  %s⟩" % (("\n" + pad + "    ") if rows else "", rs, pad, other)


def flatten(x, cls_info, cname):
    """python twin of Lean's `flatten` (Lean re-derives the same table from `classes` and checks equality)"""
    def own(sel, c):
        while c is not None:
            v = cls_info[c][sel]
            if v is not None:
                return v
            c = cls_info[c]["base"]
        raise ExtractError("no %s overload up the chain of %s" % (sel, cname))

    def flat_ov(sel, c):
        rows, other = own(sel, c)
        m = re.fullmatch(r'\.base "(\w+)"', other)
        if m:
            rows2, other2 = flat_ov(sel, m[1])
            have = {lit_key(l) for l, _ in rows}
            return rows + [(l, a) for l, a in rows2 if lit_key(l) not in have], other2
        return rows, other

    def flat_h(sel, c):
        base, asg = own(sel, c)
        if base:
            return flat_h(sel, base) + asg
        return asg

    def lit_key(l):
        return bytes(lit_bytes(l))
    fields = []
    c = cname
    while c is not None:
        fields += cls_info[c]["fields"]
        c = cls_info[c]["base"]
    return {"fields": fields, "scalar": flat_ov("scalar", cname), "list": flat_ov("list", cname), "map": flat_ov("map", cname),
            "inputs": flat_h("inputs", cname), "outputs": flat_h("outputs", cname), "description": flat_h("description", cname)}


def run():
    x = Extractor()
    x.node_rule_check()
    tools = x.tools()
    order = []
    for _, ccls in tools:
        for c in x.chain(ccls):
            if c not in order:
                order.append(c)
    cls_info = {}
    for c in order:
        fs = x.fields(c)
        info = {"base": x.base_of(c), "fields": fs}
        for kind in ("scalar", "list", "map"):
            info[kind] = x.overload(c, kind)
        for which, key in (("configureInputs", "inputs"), ("configureOutputs", "outputs"), ("configureDescription", "description")):
            info[key] = x.handler(c, which)
        cls_info[c] = info
    # a member name must be unique along every chain (the interpreter's members are keyed by name)
    for _, ccls in tools:
        names = [f[0] for c in x.chain(ccls) for f in cls_info[c]["fields"]]
        dup = {n for n in names if names.count(n) > 1}
        if dup:
            raise ExtractError("class chain of %s declares %s twice" % (ccls, sorted(dup)))
    # every member assigned by a handler must have a modelled type (checked by `need`); the root class has no bodies
    root = [c for c in order if cls_info[c]["base"] is None]
    for c in root:
        if any(cls_info[c][k] is not None for k in ("scalar", "list", "map", "inputs", "outputs", "description")):
            raise ExtractError("root class %s defines configure* bodies" % c)
    out = ["import LLBuild.Model.BSAttrs", "", "namespace LLBuild.Generated.BSAttrs", "open LLBuild.BSAttrs", ""]
    out.append("/-- `DefaultShellPath` (include/llbuild/Basic/ExecutionQueue.h) -/")
    out.append("def defaultShellPath : Lit := %s" % lean_lit(x.shell_path))
    out.append("")
    names = []
    for c in order:
        info = cls_info[c]
        rec = x.records[c]
        out.append("/-- `class %s%s` — line %s -/" % (c, (" : public " + info["base"]) if info["base"] else "", rec.get("loc", {}).get("line", "?")))
        out.append("def cls%s : ClassInfo :=" % c)
        out.append("  { name := %s, base := %s," % (lean_str(c), ("some " + lean_str(info["base"])) if info["base"] else "none"))
        out.append("    fields := [%s]," % ", ".join("⟨%s, %s⟩" % (lean_str(n), d) for n, _, d in info["fields"]))
        for kind in ("scalar", "list", "map"):
            ov = info[kind]
            out.append("    %s := %s," % (kind, "none" if ov is None else "some " + lean_overload(ov, 6)))
        for key in ("inputs", "outputs", "description"):
            h = info[key]
            if h is None:
                out.append("    %s := none%s" % (key, "," if key != "description" else " }"))
            else:
                out.append("    %s := some ⟨%s, %s⟩%s" % (key, ("some " + lean_str(h[0])) if h[0] else "none", lean_assigns(h[1]),
                                                          "," if key != "description" else " }"))
        out.append("")
        names.append("cls" + c)
    out.append("def classes : List ClassInfo := [%s]" % ", ".join(names))
    out.append("")
    out.append("/-- the command class each tool's `createCommand` makes (`BuildSystemFileDelegate::lookupTool`) -/")
    out.append("def toolClasses : List (String × String) := [%s]" % ", ".join("(%s, %s)" % (lean_str(t), lean_str(c)) for t, c in tools))
    out.append("")
    tnames = []
    for t, c in tools:
        fl = flatten(x, cls_info, c)
        ident = "tbl_" + re.sub(r"\W", "_", t)
        out.append("/-- tool `%s`: class `%s` with its inheritance chain resolved -/" % (t, c))
        out.append("def %s : ToolTable :=" % ident)
        out.append("  { tool := %s, cls := %s," % (lean_str(t), lean_str(c)))
        out.append("    fields := [%s]," % ", ".join("⟨%s, %s⟩" % (lean_str(n), d) for n, _, d in fl["fields"]))
        for kind in ("scalar", "list", "map"):
            out.append("    %s := %s," % (kind, lean_overload(fl[kind], 6)))
        out.append("    inputs := %s," % lean_assigns(fl["inputs"]))
        out.append("    outputs := %s," % lean_assigns(fl["outputs"]))
        out.append("    description := %s }" % lean_assigns(fl["description"]))
        out.append("")
        tnames.append(ident)
    out.append("def tables : List ToolTable := [%s]" % ", ".join(tnames))
    out.append("")
    mut, own, other, _ = x.result_valid(tools)
    out.append("/-- `ExternalCommand::isResultValid` (lib/BuildSystem/ExternalCommand.cpp): the checks before the per-output loop, the steps")
    out.append("of one iteration in order, the value returned after the loop -/")
    out.append("def resultValid : ResultValidChain :=")
    out.append("  { before := [.alwaysOutOfDate, .notSuccessfulCommand],")
    out.append("    perOutput := [.skipVirtual, %s, .compareInfo]," % mut)
    out.append("    after := true }")
    out.append("")
    out.append("/-- tools whose commands run `ExternalCommand::isResultValid` unchanged, and the tools with a rule of their own -/")
    out.append("def resultValidTools : List String := [%s]" % ", ".join(lean_str(t) for t in own))
    out.append("def ownValidityRuleTools : List String := [%s]" % ", ".join(lean_str(t) for t in other))
    out.append("")
    out.append("end LLBuild.Generated.BSAttrs")
    sources = [(rel, read(rel)) for rel in TUS] + [
        ("include/llbuild/BuildSystem/ShellCommand.h", read("include/llbuild/BuildSystem/ShellCommand.h")),
        ("include/llbuild/BuildSystem/ExternalCommand.h", read("include/llbuild/BuildSystem/ExternalCommand.h")),
        ("include/llbuild/BuildSystem/Command.h", read("include/llbuild/BuildSystem/Command.h")),
        ("include/llbuild/BuildSystem/BuildNode.h", read("include/llbuild/BuildSystem/BuildNode.h")),
        x.shell_src]
    return write_generated("BSAttrs", "\n".join(out), sources)


if __name__ == "__main__":
    print(run())
