"""X16a: lib/Basic/LaneBasedExecutionQueue.cpp, lib/Basic/SerialQueue.cpp, include/llbuild/Basic/POSIXEnvironment.h
-> Generated/LaneQueue.lean

What is extracted (fail closed on any unknown shape):
  * executeLane: the lock / wait-while / exit-if / pop / unlock / null-check / run shape; the wait and exit
    conditions as conjunctions of atoms; which queue is popped first
  * addJob / ~LaneBasedExecutionQueue / cancelAllJobs: what is done under readyJobsMutex and which notify is used
  * FifoScheduler / PriorityQueueScheduler / QueueJobLess: push/pop ends and the comparison direction
  * executeProcess: the cancelled-before-spawn path and the order of the setIfMissing calls
  * POSIXEnvironment::setIfMissing: first definition wins
  * SerialQueueImpl::run / ~SerialQueueImpl: sentinel handling
"""
import re
from xcommon import *

ATOMS = {
    "!shutdown": "notShutdown", "shutdown": "shutdown",
    "readyJobs->empty()": "normalEmpty", "readyPriorityJobs.empty()": "prioEmpty",
    "!readyJobs->empty()": "normalNonEmpty", "!readyPriorityJobs.empty()": "prioNonEmpty",
    "cancelled": "cancelled", "!cancelled": "notCancelled",
}


def norm(s):
    return re.sub(r"\s+", " ", s).strip()


def conj(text):
    out = []
    for a in text.split("&&"):
        a = norm(a)
        if a not in ATOMS:
            raise ExtractError("unknown condition atom: %r" % a)
        out.append(ATOMS[a])
    return out


def need(m, what):
    if not m:
        raise ExtractError("shape not recognised: " + what)
    return m


def run():
    rel = "lib/Basic/LaneBasedExecutionQueue.cpp"
    src = strip_comments(read(rel))
    # ---- executeLane ---------------------------------------------------------------------
    lane = function_body(src, r"void\s+executeLane\s*\(\s*uint32_t\s+buildID\s*,\s*uint32_t\s+laneNumber\s*\)")
    loop = need(re.search(r"while\s*\(\s*true\s*\)\s*\{", lane), "executeLane: while (true)")
    loop_body, _ = find_block(lane, loop.end() - 1)
    lb = norm(loop_body)
    m = need(re.match(
        r"QueueJob job\{\}; uint64_t readyJobsCount; \{ "
        r"std::unique_lock<std::mutex> lock\(readyJobsMutex\); "
        r"while \((?P<wait>[^{};]*)\) \{ readyJobsCondition\.wait\(lock\); \} "
        r"if \((?P<exit>[^{};]*)\) return; "
        r"if \((?P<first>!readyPriorityJobs\.empty\(\)|!readyJobs->empty\(\))\) \{ job = (?P<a>readyPriorityJobs\.|readyJobs->)getNextJob\(\); \} "
        r"else \{ job = (?P<b>readyPriorityJobs\.|readyJobs->)getNextJob\(\); \} "
        r"readyJobsCount = readyJobs->size\(\); \} "
        r"if \(!job\.getDescriptor\(\)\) break; "
        r"(?P<rest>.*)$", lb), "executeLane: lock / wait / exit / pop / unlock / null-check")
    wait_atoms = conj(m.group("wait"))
    exit_atoms = conj(m.group("exit"))
    first, a, b = m.group("first"), m.group("a"), m.group("b")
    if first == "!readyPriorityJobs.empty()" and a == "readyPriorityJobs." and b == "readyJobs->":
        prio_first = True
    elif first == "!readyJobs->empty()" and a == "readyJobs->" and b == "readyPriorityJobs.":
        prio_first = False
    else:
        raise ExtractError("executeLane: pop order not recognised")
    rest = m.group("rest")
    need(re.search(r"getDelegate\(\)\.queueJobStarted\(job\.getDescriptor\(\)\); job\.execute\([^;]*\); "
                   r"getDelegate\(\)\.queueJobFinished\(job\.getDescriptor\(\)\);", rest),
         "executeLane: started / execute / finished outside the lock")
    if len(re.findall(r"job\.execute\(", lane)) != 1:
        raise ExtractError("executeLane: job.execute must occur exactly once")
    # ---- addJob --------------------------------------------------------------------------
    add = norm(function_body(src, r"virtual\s+void\s+addJob\s*\(\s*QueueJob\s+job\s*,\s*QueueJobPriority\s+priority\s*\)\s*override"))
    m = need(re.match(
        r"uint64_t readyJobsCount; \{ std::lock_guard<std::mutex> guard\(readyJobsMutex\); "
        r"if \(priority == QueueJobPriority::High\) \{ readyPriorityJobs\.addJob\(job\); \} else \{ readyJobs->addJob\(job\); \} "
        r"readyJobsCondition\.notify_(?P<n>one|all)\(\); readyJobsCount = readyJobs->size\(\); \}", add), "addJob")
    add_notify = m.group("n")
    # ---- destructor ----------------------------------------------------------------------
    dtor = norm(function_body(src, r"virtual\s+~LaneBasedExecutionQueue\s*\(\s*\)"))
    m = need(re.match(
        r"\{ std::unique_lock<std::mutex> lock\(readyJobsMutex\); shutdown = true; readyJobsCondition\.notify_(?P<n>one|all)\(\); \} "
        r"for \(unsigned i = 0; i != numLanes; \+\+i\) \{ lanes\[i\]->join\(\); \}", dtor), "~LaneBasedExecutionQueue")
    dtor_notify = m.group("n")
    # ---- cancelAllJobs -------------------------------------------------------------------
    can = norm(function_body(src, r"virtual\s+void\s+cancelAllJobs\s*\(\s*\)\s*override"))
    m = need(re.match(
        r"\{ std::lock_guard<std::mutex> lock\(readyJobsMutex\); std::lock_guard<std::mutex> guard\(spawnedProcesses\.mutex\); "
        r"if \(cancelled\) return; cancelled = true; spawnedProcesses\.close\(\); readyJobsCondition\.notify_(?P<n>one|all)\(\); \} "
        r"spawnedProcesses\.signalAll\((?P<sig>SIG[A-Z]+)\);", can), "cancelAllJobs")
    cancel_notify, cancel_sig = m.group("n"), m.group("sig")
    need(re.search(r"spawnedProcesses\.signalAll\(SIG[A-Z]+\); \{ std::lock_guard<std::mutex> guard\(killAfterTimeoutThreadMutex\); "
                   r"killAfterTimeoutThread = llvm::make_unique<std::thread>\( ?&LaneBasedExecutionQueue::killAfterTimeout, this\); \}$", can),
         "cancelAllJobs: starts the escalation thread after the interrupt round")
    # ---- killAfterTimeout (the escalation thread) and the destructor's hand-over ----------
    kill = norm(function_body(src, r"void\s+killAfterTimeout\s*\(\s*\)"))
    k_head = (r"std::unique_lock<std::mutex> lock\(queueCompleteMutex\); if \(!queueComplete\) \{ "
              r"if \(getenv\(\"LLBUILD_TEST\"\) != nullptr\) \{ queueCompleteCondition\.wait_for\(lock, std::chrono::milliseconds\((?P<t>\d+)\)\); \} "
              r"else \{ queueCompleteCondition\.wait_for\(lock, std::chrono::seconds\((?P<s>\d+)\)\); \} ")
    k_sig = r"#if _WIN32 spawnedProcesses\.signalAll\(SIGTERM\); #else spawnedProcesses\.signalAll\((?P<sig>SIG[A-Z]+)\); #endif"
    m = re.match(k_head + k_sig + r" \}$", kill)
    escalates_when_complete = False          # the kill round sits inside `if (!queueComplete)`
    if not m:
        m = re.match(k_head + r"\} " + k_sig + r"$", kill)
        escalates_when_complete = True       # F53: the kill round follows the `if`
    need(m, "killAfterTimeout: lock / if (!queueComplete) { unconditional wait_for } / signalAll")
    escalate_sig = m.group("sig")
    esc_test_ms, esc_ms = int(m.group("t")), 1000 * int(m.group("s"))
    m = need(re.search(r"for \(unsigned i = 0; i != numLanes; \+\+i\) \{ lanes\[i\]->join\(\); \} "
                       r"\{ std::lock_guard<std::mutex> guard\(killAfterTimeoutThreadMutex\); if \(killAfterTimeoutThread\) \{ "
                       r"\{ std::unique_lock<std::mutex> lock\(queueCompleteMutex\); queueComplete = true; queueCompleteCondition\.notify_all\(\); \} "
                       r"killAfterTimeoutThread->join\(\); \} \}"
                       r"(?P<bg> while \(backgroundTaskCount\.load\(\) != 0\) std::this_thread::sleep_for\(std::chrono::milliseconds\(1\)\);)?$", dtor),
             "~LaneBasedExecutionQueue: join lanes, then queueComplete = true + notify_all, then join the escalation thread")
    dtor_waits_background = m.group("bg") is not None     # F54
    if len(re.findall(r"\bqueueComplete\b", src)) != 3:      # declaration, the test in killAfterTimeout, the store in the destructor
        raise ExtractError("queueComplete is read or written somewhere else")
    # ---- schedulers ----------------------------------------------------------------------
    fifo = norm(src[src.index("class FifoScheduler"):src.index("class LaneBasedExecutionQueue")])
    need(re.search(r"void addJob\(QueueJob job\) override \{ jobs\.push_back\(job\); \}", fifo), "FifoScheduler::addJob")
    need(re.search(r"QueueJob getNextJob\(\) override \{ QueueJob job = jobs\.front\(\); jobs\.pop_front\(\); return job; \}", fifo),
         "FifoScheduler::getNextJob")
    pq = norm(src[src.index("class PriorityQueueScheduler"):src.index("class FifoScheduler")])
    need(re.search(r"std::priority_queue<QueueJob, std::vector<QueueJob>, QueueJobLess> jobs;", pq), "PriorityQueueScheduler::jobs")
    need(re.search(r"QueueJob getNextJob\(\) override \{ QueueJob job = jobs\.top\(\); jobs\.pop\(\); return job; \}", pq),
         "PriorityQueueScheduler::getNextJob")
    less = norm(src[src.index("struct QueueJobLess"):src.index("namespace {")])
    m = need(re.search(r"return __x\.getDescriptor\(\)->getOrdinalName\(\) (<|>) __y\.getDescriptor\(\)->getOrdinalName\(\);", less),
             "QueueJobLess")
    name_pops_greatest = m.group(1) == "<"      # std::priority_queue pops the greatest w.r.t. the comparator
    need(re.search(r"FifoScheduler readyPriorityJobs;", src), "readyPriorityJobs is a FifoScheduler")
    # ---- executeProcess ------------------------------------------------------------------
    ep = norm(function_body(src, r"virtual\s+void\s+executeProcess\s*\([^{;]*?ProcessDelegate\*\s+delegate\s*\)\s*override"))
    need(re.search(r"\{ std::unique_lock<std::mutex> lock\(readyJobsMutex\); if \(cancelled\) \{ "
                   r"if \(completionFn\.hasValue\(\)\) completionFn\.getValue\(\)\(ProcessResult::makeCancelled\(\)\); return; \} \}", ep),
         "executeProcess: cancelled-before-spawn path")
    need(re.search(r"ProcessReleaseFn releaseFn = \[this\]\(std::function<void\(\)>&& processWait\) \{ auto previousTaskCount = backgroundTaskCount\.fetch_add\(1\); "
                   r"if \(previousTaskCount < backgroundTaskMax\) \{ std::thread\(\[this, processWait=std::move\(processWait\)\]\(\) mutable \{ processWait\(\); backgroundTaskCount--; \}\)\.detach\(\); \} "
                   r"else \{ backgroundTaskCount--; processWait\(\); \} \};", ep),
         "executeProcess: a released lane waits for the process on a detached thread (or inline when over the limit)")
    order = []
    for mm in re.finditer(r"posixEnv\.setIfMissing\(([^,]*),", ep):
        k = norm(mm.group(1))
        pre = ep[:mm.start()]
        if k == '"LLBUILD_BUILD_ID"':
            order.append("buildId")
        elif k == '"LLBUILD_LANE_ID"':
            order.append("laneId")
        elif k == "entry.first" and pre.rstrip().endswith("for (const auto& entry: environment) {"):
            order.append("requested")
        elif k == "pair.first" and re.search(r"if \(attributes\.inheritEnvironment\) \{ for \(const char\* const\* p = this->environment; \*p != nullptr; \+\+p\) \{ auto pair = StringRef\(\*p\)\.split\('='\); $", pre):
            order.append("inherited")
        else:
            raise ExtractError("executeProcess: unknown setIfMissing key %r" % k)
    if len(re.findall(r"completionFn\.getValue\(\)\(", ep)) != 2 or len(re.findall(r"spawnProcess\(", ep)) != 1:
        raise ExtractError("executeProcess: completion / spawnProcess call count changed")
    # spawnProcess adds two more (Subprocess.cpp)
    rel2 = "lib/Basic/Subprocess.cpp"
    sub = strip_comments(read(rel2))
    sp = norm(function_body(sub, r"void\s+llbuild::basic::spawnProcess\s*\([^{;]*?ProcessCompletionFn&&\s+completionFn\s*\)"))
    keys = re.findall(r"environment\.setIfMissing\(([^,]*),", sp)
    if [norm(k) for k in keys] != ['"LLBUILD_TASK_ID"', '"LLBUILD_CONTROL_FD"']:
        raise ExtractError("spawnProcess: setIfMissing keys changed: %r" % keys)
    need(re.search(r'if \(controlPipeChildEnd\.isValid\(\)\) \{ long long controlFd = [^;]*; environment\.setIfMissing\("LLBUILD_CONTROL_FD"', sp),
         "spawnProcess: LLBUILD_CONTROL_FD only with a control pipe")
    order += ["taskId", "controlFd"]
    # ---- POSIXEnvironment::setIfMissing --------------------------------------------------
    rel3 = "include/llbuild/Basic/POSIXEnvironment.h"
    pe = strip_comments(read(rel3))
    sim = norm(function_body(pe, r"void\s+setIfMissing\s*\(\s*StringRef\s+key\s*,\s*StringRef\s+value\s*\)"))
    need(re.match(r"assert\(!isFrozen\); if \(keys\.insert\(key\)\.second\) \{ llvm::SmallString<256> assignment; assignment \+= key; "
                  r"assignment \+= '='; assignment \+= value; assignment \+= '\\0'; envStorage\.emplace_back\(assignment\.str\(\)\); \}$", sim),
         "POSIXEnvironment::setIfMissing")
    genvp = norm(function_body(pe, r"const\s+char\*\s+const\*\s+getEnvp\s*\(\s*\)"))
    need(re.search(r"for \(const auto& entry : envStorage\) \{ env\.emplace_back\(entry\.c_str\(\)\); \}", genvp), "getEnvp order")
    # ---- SerialQueueImpl -----------------------------------------------------------------
    rel4 = "lib/Basic/SerialQueue.cpp"
    sq = strip_comments(read(rel4))
    runb = norm(function_body(sq, r"void\s+run\s*\(\s*\)"))
    head = (r"while \(true\) \{ std::function<void\(void\)> fn; \{ std::unique_lock<std::mutex> lock\(operationsMutex\); "
            r"while \(operations\.empty\(\)\) \{ readyOperationsCondition\.wait\(lock\); \} fn = operations\.front\(\); operations\.pop_front\(\); \} ")
    if re.match(head + r"if \(!fn\) break; fn\(\); \}$", runb):
        serial_requeues = False
    elif re.match(head + r"if \(!fn\) \{ std::lock_guard<std::mutex> guard\(operationsMutex\); if \(operations\.empty\(\)\) break; "
                         r"operations\.push_back\(fn\); continue; \} fn\(\); \}$", runb):
        serial_requeues = True
    else:
        raise ExtractError("SerialQueueImpl::run: shape not recognised")
    addop = norm(function_body(sq, r"void\s+addOperation\s*\(\s*std::function<void\(void\)>&&\s+fn\s*\)"))
    need(re.match(r"std::lock_guard<std::mutex> guard\(operationsMutex\); operations\.push_back\(fn\); readyOperationsCondition\.notify_one\(\);$", addop),
         "SerialQueueImpl::addOperation")
    sdt = norm(function_body(sq, r"~SerialQueueImpl\s*\(\s*\)"))
    need(re.match(r"addOperation\(\{\}\); operationsThread->join\(\);$", sdt), "~SerialQueueImpl")

    def atoms(l):
        return "[" + ", ".join(".%s" % a for a in l) + "]"

    def b(x):
        return "true" if x else "false"
    lean = """namespace LLBuild.Generated.LaneQueue

inductive Atom
  | shutdown | notShutdown | normalEmpty | prioEmpty | normalNonEmpty | prioNonEmpty | cancelled | notCancelled
  deriving DecidableEq, Repr

inductive Notify
  | one | all
  deriving DecidableEq, Repr

inductive EnvSource
  | buildId | laneId | requested | inherited | taskId | controlFd
  deriving DecidableEq, Repr

/-- executeLane: `while (<this>) readyJobsCondition.wait(lock);` -/
def waitWhile : List Atom := %s
/-- executeLane: `if (<this>) return;` -/
def exitWhen : List Atom := %s
/-- executeLane pops `readyPriorityJobs` first when it is not empty -/
def popPriorityFirst : Bool := %s
/-- `std::priority_queue<.., QueueJobLess>` with `x.name < y.name`: the greatest name is popped -/
def namePopsGreatest : Bool := %s
def addNotify : Notify := .%s
def destroyNotify : Notify := .%s
def cancelNotify : Notify := .%s
/-- order of the `setIfMissing` calls (executeProcess, then spawnProcess) -/
def envOrder : List EnvSource := [%s]
/-- SerialQueueImpl::run re-queues the shutdown sentinel while operations remain behind it -/
def serialRequeuesSentinel : Bool := %s
def cancelSignalName : String := %s
def escalateSignalName : String := %s
/-- killAfterTimeout sends the kill round also when it finds `queueComplete` already set (false: the round sits inside
`if (!queueComplete)`, so a destructor that gets there first makes the thread return without signalling) -/
def escalatesWhenComplete : Bool := %s
/-- escalation deadline in ms (normal, with LLBUILD_TEST set) -/
def escalationDeadlineMs : Nat := %d
def escalationDeadlineTestMs : Nat := %d
/-- the destructor waits until the detached waiters of lane-released processes are done (F54); not used by a theorem:
object life time is outside the models, the harness observes it -/
def destructorWaitsForBackgroundTasks : Bool := %s

end LLBuild.Generated.LaneQueue
""" % (atoms(wait_atoms), atoms(exit_atoms), b(prio_first), b(name_pops_greatest), add_notify, dtor_notify, cancel_notify,
       ", ".join("." + o for o in order), b(serial_requeues), lean_str(cancel_sig), lean_str(escalate_sig), b(escalates_when_complete), esc_ms, esc_test_ms, b(dtor_waits_background))
    return write_generated("LaneQueue", lean, [(rel, lane + add + dtor + can + kill + ep + fifo + pq + less), (rel2, sp), (rel3, sim), (rel4, runb)])


if __name__ == "__main__":
    print(run())
