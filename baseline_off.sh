#!/bin/sh
# Build /repo with the LLBUILD_VERIF guard OFF (the pre-configured /repo/_build tree has no such define)
# and run the pinned test suite.
set -e
cmake --build /repo/_build -j16 >/dev/null
ctest --test-dir /repo/_build -j8 --timeout 900 "$@"
