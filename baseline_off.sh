#!/bin/sh
# Build /repo with the LLBUILD_VERIF guard OFF (the pre-configured /repo/_build tree has no such define)
# and run the pinned test suite (the gtest binaries of /repo/_build/bin; ctest registers none of them).
set -e
cmake --build /repo/_build -j16 >/dev/null
rc=0
for t in BasicTests BuildSystemTests CAPITests CASTests CoreTests EvoTests NinjaTests; do
  if [ -x /repo/_build/bin/$t ]; then
    ( cd /repo/_build && ./bin/$t "$@" ) || rc=1
  fi
done
exit $rc
