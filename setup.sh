#!/bin/sh
# Build the framework from files on disk only (offline): Lean library + model driver, the
# implementation from /repo's working tree (with -DLLBUILD_VERIF) into /verif/build, the harnesses.
set -e
cd "$(dirname "$0")"
mkdir -p build/scratch evidence
python3 - <<'PY'
import sys, os, glob
sys.path.insert(0, os.getcwd())
from vlib import common as C
ok, out = C.lake_build(["LLBuild", "llbuild-model"])
print("lake build:", "ok" if ok else out[-3000:])
ok2, d, out = C.build_impl("plain")
print("impl build:", "ok" if ok2 else out[-3000:])
ok3 = True
for src in sorted(glob.glob("harness/v*.cpp")):
    name = os.path.basename(src)[:-4]
    okh, exe, out = C.build_harness(name, "plain")
    print("harness", name, "ok" if okh else out[-2000:])
    ok3 = ok3 and okh
sys.exit(0 if ok and ok2 and ok3 else 1)
PY
